#!/bin/bash
# offline build of the harness in the profiles the quick checks need
set -e
cd "$(dirname "$0")/harness"
export CARGO_NET_OFFLINE=true
cargo build --offline --profile checked --bin vpcheck
cargo build --offline --release --bin vpcheck
./target/checked/vpcheck selftest
