#!/bin/bash
# tools/eval_seed.sh <seed-dir-with-patch.diff-and-demo> <seed-id> <property> [checks...]
# Confirms a seeded change independently: patch applies to /repo, crate builds
# (also with the parallel feature), the unedited test suite passes with it, the
# demonstration fails with it and passes without it; then runs the given checks
# (default: all 19, quick tier) against the patched tree and records which fire.
# /repo's working tree is restored afterwards. Results: /verif/seeded/<id>/.
set -u
SRC="$1"; ID="$2"; PROP="$3"; shift 3
CHECKS="${*:-C01 C02 C03 C04 C05 C06 C07 C08 C09 C10 C11 C12 C13 C14 C15 C16 C17 C18 C19}"
OUT="/verif/seeded/$ID"
mkdir -p "$OUT"
PATCH="$(readlink -f "$SRC/patch.diff")"
DEMO="$(ls "$SRC"/*.rs 2>/dev/null | head -1)"
[ -n "$(git -C /repo status --porcelain --untracked-files=no)" ] && { echo "/repo not clean"; exit 2; }
cleanup() { git -C /repo checkout -- . ; rm -f /repo/tests/seed_demo.rs /repo/examples/seed_demo.rs; }
trap cleanup EXIT
demo_run() { # returns 0 if demo passes
  [ -z "$DEMO" ] && return 2
  cp "$DEMO" /repo/tests/seed_demo.rs
  (cd /repo && timeout 900 cargo test --offline --features parallel --test seed_demo >/tmp/seed_demo.log 2>&1); local rc=$?
  rm -f /repo/tests/seed_demo.rs
  return $rc
}
demo_run; DEMO_WITHOUT=$?
git -C /repo apply "$PATCH" || { echo "patch does not apply"; exit 2; }
BUILD=ok; (cd /repo && cargo build --offline --features parallel >/dev/null 2>&1) || BUILD=FAIL
TESTS=pass; (cd /repo && cargo test --workspace --no-fail-fast --offline >/tmp/seed_tests.log 2>&1) || TESTS=FAIL
demo_run; DEMO_WITH=$?
RES=""
FIRED=""
TMPD="$(mktemp -d /root/scratch/evalseed.XXXXXX)"
# build once, then run the checks four at a time (each check only reads /repo and writes its own evidence file)
(cd /verif/harness && cargo build --offline --profile checked --bin vpcheck >/dev/null 2>&1; cargo build --offline --release --bin vpcheck >/dev/null 2>&1)
run_check() {
  c="$1"; t0=$SECONDS
  out="$(cd /verif && timeout 1800 ./check "$c" quick 2>&1)"; rc=$?
  nv="$(echo "$out" | grep -c '^VIOLATION')"
  first="$(echo "$out" | grep -A1 -m1 '^VIOLATION' | tail -1 | cut -c1-200 | tr '"' "'" | tr -d '\\')"
  echo "{\"check\":\"$c\",\"exit\":$rc,\"violations\":$nv,\"seconds\":$((SECONDS-t0)),\"first\":\"$first\"}" > "$TMPD/$c.json"
}
export -f run_check; export TMPD
echo $CHECKS | tr ' ' '\n' | xargs -P 4 -I{} bash -c 'run_check {}'
for c in $CHECKS; do
  [ -f "$TMPD/$c.json" ] || continue
  RES="$RES$(cat "$TMPD/$c.json"),"
  grep -q '"exit":1,' "$TMPD/$c.json" && FIRED="$FIRED $c"
done
rm -rf "$TMPD"; rm -f /verif/replays/*.json
cleanup; trap - EXIT
cp "$PATCH" "$OUT/patch.diff"
[ -n "$DEMO" ] && cp "$DEMO" "$OUT/$(basename "$DEMO")"
[ -f "$SRC/NOTES.md" ] && cp "$SRC/NOTES.md" "$OUT/NOTES.md"
cat > "$OUT/meta.json" <<EOF
{"id": "$ID", "property": "$PROP", "origin": "independent sub-agent given only the property text and a scratch worktree",
 "needs_to_manifest": "see NOTES.md",
 "confirmed": {"patch_applies": true, "build_with_parallel_feature": "$BUILD", "existing_test_suite_with_patch": "$TESTS",
   "demo_exit_without_patch": $DEMO_WITHOUT, "demo_exit_with_patch": $DEMO_WITH,
   "demo_command": "cp seed_demo.rs /repo/tests/ && cargo test --offline --features parallel --test seed_demo"},
 "checks_run": [${RES%,}],
 "checks_fired": "$(echo $FIRED)"}
EOF
echo "$ID ($PROP): build=$BUILD tests=$TESTS demo without=$DEMO_WITHOUT with=$DEMO_WITH fired:$FIRED"
(cd /verif/harness && cargo build --offline --profile checked --bin vpcheck >/dev/null 2>&1; cargo build --offline --release --bin vpcheck >/dev/null 2>&1)
