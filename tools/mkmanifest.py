#!/usr/bin/env python3
"""Regenerates /verif/MANIFEST.json from the table below (kept in one place so the manifest stays valid)."""
import json, os
HERE = os.path.dirname(os.path.dirname(os.path.abspath(__file__)))

CHECKS = {}
def chk(pid, level, text, note, technique, design_ref, thorough=True):
    CHECKS[pid] = dict(
        property_id=pid,
        quick_cmd=f"./check {pid} quick",
        evidence_file=f"/verif/evidence/{pid}.json",
        replay_cmd_template=f"./check {pid} --replay {{path}}",
        engine="vpcheck",
        level_claimed=dict(category=level, text=text, design_ref=design_ref),
        level_note=note,
        technique=technique,
    )
    if thorough:
        CHECKS[pid]["thorough_cmd"] = f"./check {pid} thorough"

exec(open(os.path.join(HERE, "tools", "checks_table.py")).read())

NOT_APPLICABLE = []
all_ids = [json.loads(l)["id"] for l in open(os.path.join(HERE, "properties.jsonl"))]
for pid in all_ids:
    if pid not in CHECKS:
        NOT_APPLICABLE.append(dict(property_id=pid, reason="monitor not built yet in this session (see DESIGN.md section 5 for the planned runtime monitor); not claimed"))

manifest = dict(
    version=1,
    setup_cmd="./setup.sh",
    hooks=dict(
        guard="varpro_verif",
        enable="RUSTFLAGS=\"--cfg varpro_verif\" (reserved; no hook is needed: every observation point is public API, see DESIGN.md section 7)",
        baseline_off_cmd="cd /repo && cargo test --workspace --no-fail-fast --offline",
        source_commits=[],
        add_only=True,
    ),
    engines=[
        dict(name="vpcheck", path="/verif/harness", serves_properties=sorted(CHECKS), kind_free_text="Rust harness linking the real varpro crate from /repo (path dependency, feature parallel): oracle kit, ModelSpy/ProblemSpy monitors, process-boundary watchdog, generators"),
    ],
    checks=[CHECKS[k] for k in sorted(CHECKS)],
    notes="Runtime monitoring only. Exit codes: 0 held on everything explored (KNOWN-FINDING lines allowed), 1 VIOLATION, 2 harness/build error (not a verdict). fix: commits in /repo are listed in known_findings.jsonl.",
    not_applicable=NOT_APPLICABLE,
)
json.dump(manifest, open(os.path.join(HERE, "MANIFEST.json"), "w"), indent=1)
print("checks:", sorted(CHECKS), "not claimed:", [n["property_id"] for n in NOT_APPLICABLE])
