chk("C01", "exploration",
    "Optimality certificate (normal equations, kappa-free), designed-SVD truncation reference, exact threshold boundary and linearity evaluated on tens of thousands of generated states (after build, after caller updates, at every optimizer step). Held-on-what-was-observed; right level because the property quantifies over all inputs and only an oracle per state can decide it.",
    "Trusts the harness's own QR/Jacobi-SVD kit (self-tested at start-up) and the zoo formulas; failures explained by the measured reconstruction error of nalgebra's SVD are reported as known finding KF-1, anything else is a violation.",
    "online certificate + reference-model monitor over generated states", "5/C01")
chk("C08", "exploration",
    "Every case (build, updates, fit, statistics) runs in a child process under a CPU-time watchdog with an event stream; panics, signals and cases that do not return within the budget (twice, isolated) are violations. Both overflow-checked and release profiles.",
    "Non-termination is decided in the restated form 'returns within 10 CPU-seconds (30 isolated)'; models honour the trait contract (shapes) by construction.",
    "process-boundary watchdog + panic events over hostile IEEE-754 workloads", "5/C08")
chk("C09", "fault_enumeration",
    "Exhaustive fault enumeration over every model-call index of recorded scenarios (build, caller history with queries, fit, statistics) x {transient, persistent}; a shadow model over the ModelSpy call/return log predicts absence, present values are compared bitwise with a fresh fault-free problem.",
    "Exhaustive only within the enumerated scenarios; parallel scenarios assign call indices to derivative calls in schedule order, the shadow model reads the log so the verdict is schedule independent.",
    "fault injection at every call index + shadow-model monitor over the event log", "5/C09")
chk("C12", "exploration",
    "Sweeps every (M,P) in 1..6 x 1..4 with N from 1 to M+P+3 in child processes of the overflow-checked and release builds; checks Ok => N>M+P and the three identities, and Err (never a panic) for under-determined fits, failed fits and a model failing at every call of the statistics stage.",
    "Ok is not demanded for N>M+P; identities are checked between reported quantities with rounding-level tolerances.",
    "process-boundary panic events + identity monitor over a shape sweep, two build profiles", "5/C12")
