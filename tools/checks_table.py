chk("C01", "exploration",
    "Optimality certificate (normal equations, kappa-free), designed-SVD truncation reference, exact threshold boundary and linearity evaluated on tens of thousands of generated states (after build, after caller updates, at every optimizer step). Held-on-what-was-observed; right level because the property quantifies over all inputs and only an oracle per state can decide it.",
    "Trusts the harness's own QR/Jacobi-SVD kit (self-tested at start-up) and the zoo formulas; failures explained by the measured reconstruction error of nalgebra's SVD are reported as known finding KF-1, anything else is a violation.",
    "online certificate + reference-model monitor over generated states", "5/C01")
chk("C08", "exploration",
    "Every case (build, updates, fit, statistics) runs in a child process under a CPU-time watchdog with an event stream; panics, signals (including allocation-failure aborts) and cases that do not return within the budget (twice, isolated) are violations. Classes: random starts, hostile IEEE-754 values, degenerate tables, near-valid builder programs, zero observations with hostile derivatives, 1e5-sample problems, custom BasisFunction types of arity 11..14. Both overflow-checked and release profiles.",
    "Non-termination is decided in the restated form 'returns within 10 CPU-seconds (30 isolated)'; models honour the trait contract (shapes) by construction.",
    "process-boundary watchdog + panic events over hostile IEEE-754 workloads", "5/C08")
chk("C09", "fault_enumeration",
    "Exhaustive fault enumeration over every model-call index of recorded scenarios (build, caller history with queries, fit, statistics) x {transient, persistent}; a shadow model over the ModelSpy call/return log predicts absence, present values are compared bitwise with a fresh fault-free problem.",
    "Exhaustive only within the enumerated scenarios; parallel scenarios assign call indices to derivative calls in schedule order, the shadow model reads the log so the verdict is schedule independent.",
    "fault injection at every call index + shadow-model monitor over the event log", "5/C09")
chk("C12", "exploration",
    "Sweeps every (M,P) in 1..6 x 1..4 with N from 1 to M+P+3 in child processes of the overflow-checked and release builds; checks Ok => N>M+P and the three identities, and Err (never a panic) for under-determined fits, failed fits and a model failing at every call of the statistics stage.",
    "Ok is not demanded for N>M+P; identities are checked between reported quantities with rounding-level tolerances.",
    "process-boundary panic events + identity monitor over a shape sweep, two build profiles", "5/C12")
chk("C02", "exploration",
    "Residual identity recomputed in f64 from reported coefficients, supplied Y/w and the oracle's Phi at every state of generated update histories (caller- and optimizer-driven) and for every residual vector handed to the optimizer; weighted_data == W·Y bitwise; params() == last alpha; best_fit == unweighted Phi·C in the observations' shape.",
    "Oracle Phi comes from the zoo's formulas; tolerance 16·eps·M·(|y_w|+|Phi_w||C|) per element, kappa-free.",
    "online identity monitor over update histories + ProblemSpy exchange log", "5/C02")
chk("C03", "exploration",
    "Every Jacobian (states, histories, optimizer exchanges) compared with the Kaufman reference -(I-QQ^T)WD_kC from the oracle's QR, orthogonality certificate, gradient check against Richardson central differences, and each derivative call failed in turn must give no Jacobian.",
    "Only numerically full-rank states are in scope (kappa<=1e8, 1e3 for f32); mismatches explained by the measured SVD reconstruction error are KF-1.",
    "reference-model + certificate monitor, fault injection on derivative calls", "5/C03")
chk("C06", "exploration",
    "Differential twins over shared alpha-histories and fits: weighted problem vs unweighted problem over a row-scaled wrapper model and row-scaled data; unit weights vs none; zero-weight rows vs other data / removed rows; reduced chi2 and covariance of both twins.",
    "Twins are compared with kappa-scaled tolerances (bitwise agreement is recorded, not demanded); ill-conditioned states are inconclusive.",
    "differential twin monitor", "5/C06")
chk("C07", "exploration",
    "One S-column problem vs S single problems vs a column-permuted problem over shared alpha-histories: coefficient column, residual block and every Jacobian block per column; permuted fits on identifiable families.",
    "kappa-scaled twin tolerances; fitted-alpha comparison only where the fitted point is well identified.",
    "differential twin monitor", "5/C07")
chk("C10", "exploration",
    "Long-lived problem vs freshly built problem bitwise after every step of random histories (repeated, failing, non-finite updates, repeated queries, heap churn, complete fits after which the returned problem carries on; histories of parallel problems repeated in a pool of another size); clones moved apart; same sequences under a poisoning allocator in three modes (child processes); thorough adds valgrind memcheck and Miri over a workload that branches on every output element.",
    "Bitwise equality is the property itself (determinism of one computation); the poison allocator initialises memory so memcheck/Miri run with it in pass-through mode.",
    "history-twin monitor + poisoning allocator + memcheck + Miri", "5/C10")
chk("C04", "exploration",
    "Every generated fit is run twice, as the real LevMarSolver::fit with a ModelSpy call log and as minimize over a ProblemSpy; logs, reports and final parameters must coincide; then Ok <=> successful termination, evaluation budget, and for successful fits the C01 certificate, C02 identity, objective = 1/2|r|^2 and no-worse-than-start.",
    "The call-log twin is sequential (parallel call logs are schedule dependent); a separate stream fits through the parallel constructors without the log twin; coefficient optimality inherits the KF-1 triage.",
    "twin-run monitor (real fit vs spied minimize) + final-state oracles", "5/C04")
chk("C05", "exploration",
    "Fits of the certified families (well-separated decays, Gaussian+decay+offset, decay+offset) from starts within 5%: success, noiseless reproduction, SSQ not above the generating parameters, gradient cosine; failing instances are triaged with the dependency's measured SVD error along the trajectory.",
    "Claim limited to the stated families and ranges; thresholds fixed at design time.",
    "convergence oracle over generated identifiable families", "5/C05")
chk("C11", "exploration",
    "Parallel problems run inside explicit rayon pools (1..16 threads) with seeded delays in the derivative calls; compared with the sequential problem (also with a failing derivative, with non-finite observations, and for a model over a complex scalar type), across pool sizes/schedules (bitwise) and before/after into_sequential; schedule signatures counted from the ModelSpy log; thorough adds ThreadSanitizer (build-std) and Miri with many seeds.",
    "rayon's scheduler is not controlled; a run in which no Jacobian used two workers is inconclusive (exit 2), not a pass.",
    "differential monitor over pool sizes and injected delays + TSan + Miri", "5/C11")
chk("C13", "exploration",
    "On every successful fit_with_statistics: diagonal >= 0, accessors bit-equal to the diagonal segments, correlation == normalised covariance with unit diagonal and entries in [-1,1]; where H^T H is numerically positive definite: Cov·(H^T H) == sigma^2 I with H built by the oracle in the documented order and sigma^2 from the oracle's own residual (also compared with reduced_chi2 directly), and symmetry. Builder-made models are also fitted without the harness's forwarding wrapper, and for Clone-able models a clone of the statistics object is judged.",
    "Value oracles are inconclusive for numerically singular normal matrices; +inf variances (range overflow of the scalar type) are inconclusive.",
    "certificate monitor Cov·(H^T H)=sigma^2 I + structural invariants on every Ok", "5/C13")
chk("C14", "exploration",
    "40 probabilities per successful fit with 1..30 degrees of freedom: length, finiteness, sign, monotonicity in p, documented panic outside (0,1); squared radius against the oracle's own Student-t quantile, the unweighted oracle Jacobian and (i) the library's own covariance on every fit, (ii) the oracle's own sigma^2 (H^T H)^-1 with sigma^2 from the oracle's residual where the normal matrix is positive definite; the whole monitor runs in-process under the checked profile and again in child processes of the release profile.",
    "Own t-quantile (self-tested against a committed scipy table); 4e-4 relative tolerance for the library's third-party quantile.",
    "reference-model monitor with independent Student-t quantile", "5/C14")
chk("C15", "exploration",
    "Call programs are executed on the real SeparableModelBuilder and on an executable specification written from the property text (a set of defects): all programs of <=4 (quick) / <=5 (thorough) calls over a 6x25 alphabet exhaustively, plus guided near-valid programs (arities 1..10) and random programs; Ok <=> no defect, Err(kind) => kind is a defect present.",
    "Exhaustive only within the stated alphabet and length; the specification is silent about empty-string names.",
    "bounded exhaustive enumeration + guided/random programs against an executable specification", "5/C15")
chk("C16", "exploration",
    "Generated builder specifications (parameter lists 1..10 in random order - every 40th model 11..257 parameters -, arities 1..10 over ordered subsets and 11..14 through a user type implementing BasisFunction, derivatives supplied in random order, invariant functions anywhere) with asymmetric position-coded closures; eval and every eval_partial_deriv compared bitwise with the same closures called by an oracle that routes by name; zero columns exact; params round-trip. Thorough adds Miri.",
    "Bitwise comparison of the same closure on the same arguments; the oracle shares the closure code but not the routing.",
    "reference-model monitor with position-coded closures (+ Miri)", "5/C16")
chk("C17", "exploration",
    "Random histories mixing valid updates with every misuse the property names (wrong output length at any function/derivative position: empty, shorter, longer; indices >= P; wrong parameter counts); each misuse must be Err without panic, and params/eval/derivatives must stay bit-identical to the snapshot after the last accepted update. Thorough adds Miri.",
    "Closures misbehave on command through a shared control cell; a derivative closure that is not called is itself a finding.",
    "shadow-state monitor over misuse histories (+ Miri)", "5/C17")
chk("C18", "exploration",
    "Exhaustive shape grid (model length 0..12 x rows 0..12 x columns 0..4 x weight lengths x four constructors) under several call orders/repetitions against a specification of violated requirements; accepted problems must start at the model's parameters with state exposed, equal an explicit set_params(initial) and be independent of call order (bitwise); threshold semantics probed at one-ulp resolution with a one-column model.",
    "Builder error kinds are read from their Debug form (the type is not nameable outside the crate).",
    "exhaustive shape enumeration against an executable specification + one-ulp threshold probes", "5/C18")
chk("C19", "exploration",
    "Statistical monitor: per design K Gaussian noise realisations (30000 quick / 1000000 thorough; decays, Gaussian peak, oscillating basis, signed weights, large units, one design with > 2048 samples through the parallel constructor), coverage of the band per sample and of t-intervals per parameter at p in {0.1,0.3,0.5,0.683,0.9,0.99} and the mean reduced chi2, each against 6-sigma binomial bounds plus a slack of 0.008*sqrt(p(1-p)).",
    "A pass means 'not distinguishable from calibrated at resolution ~0.01'; false-alarm rate designed < 1e-5 per run.",
    "statistical coverage monitor over repeated noise realisations", "5/C19")
