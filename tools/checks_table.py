chk("C01", "exploration",
    "Optimality certificate (normal equations, kappa-free), designed-SVD truncation reference, exact threshold boundary and linearity evaluated on tens of thousands of generated states (after build, after caller updates, at every optimizer step). Held-on-what-was-observed; right level because the property quantifies over all inputs and only an oracle per state can decide it.",
    "Trusts the harness's own QR/Jacobi-SVD kit (self-tested at start-up) and the zoo formulas; failures explained by the measured reconstruction error of nalgebra's SVD are reported as known finding KF-1, anything else is a violation.",
    "online certificate + reference-model monitor over generated states", "5/C01")
chk("C08", "exploration",
    "Every case (build, updates, fit, statistics) runs in a child process under a CPU-time watchdog with an event stream; panics, signals and cases that do not return within the budget (twice, isolated) are violations. Both overflow-checked and release profiles.",
    "Non-termination is decided in the restated form 'returns within 10 CPU-seconds (30 isolated)'; models honour the trait contract (shapes) by construction.",
    "process-boundary watchdog + panic events over hostile IEEE-754 workloads", "5/C08")
