#!/usr/bin/env python3
"""Rewrites the generated part of DESIGN.md section 8 (between the BEGIN/END markers)
from mutants/results.txt, mutants/index.json and seeded/*/meta.json."""
import json, glob, os, re
HERE = os.path.dirname(os.path.dirname(os.path.abspath(__file__)))
out = []
out.append("### 8.1 Own mutants (mutants/*.patch, `mutants/run.sh all`, quick tier)\n")
out.append("| mutant | what it breaks | existing test suite | checks expected to fire -> result |")
out.append("|---|---|---|---|")
idx = json.load(open(os.path.join(HERE, "mutants", "index.json")))
res = {}
rp = os.path.join(HERE, "mutants", "results.txt")
if os.path.exists(rp):
    for line in open(rp):
        parts = [p.strip() for p in line.split("|")]
        if len(parts) >= 3:
            res[parts[0]] = parts
for name in sorted(idx):
    r = res.get(name)
    note = idx[name]["note"]
    if not r:
        out.append(f"| {name} | {note} | not run | |")
        continue
    build = r[1].replace("build=", "")
    tests = r[2].replace("repo-tests=", "") if len(r) > 2 else ""
    checks = " ".join(r[3:]) if len(r) > 3 else ""
    fired = re.findall(r"(C\d\d):exit=(\d+),violations=(\d+),(\d+)s", checks)
    cell = ", ".join(f"{c}: {'**fires**' if e == '1' else ('silent' if e == '0' else 'exit ' + e)} ({s}s)" for c, e, v, s in fired)
    if build != "ok":
        cell = "does not compile (discarded)"
    out.append(f"| {name} | {note} | {'passes' if tests == 'pass' else 'notices (' + tests + ')'} | {cell} |")
out.append("")
out.append("### 8.2 Independently seeded changes (seeded/<id>/, produced by sub-agents that saw only the property text)\n")
out.append("| id | property | change (see seeded/<id>/NOTES.md) | suite with patch | demo without / with patch | checks that fire (all 19 quick checks were run) |")
out.append("|---|---|---|---|---|---|")
SUM = json.load(open(os.path.join(HERE, "tools", "seed_summaries.json")))
for mp in sorted(glob.glob(os.path.join(HERE, "seeded", "*", "meta.json"))):
    m = json.load(open(mp))
    c = m["confirmed"]
    extra = SUM.get(m["id"], {})
    if extra and (m.get("summary") != extra.get("summary") or m.get("needs_to_manifest") != extra.get("needs")):
        m["summary"] = extra.get("summary", "")
        m["needs_to_manifest"] = extra.get("needs", m.get("needs_to_manifest", ""))
        json.dump(m, open(mp, "w"), indent=1)
    desc = m.get("summary", "") + " — needs: " + m.get("needs_to_manifest", "")
    own = m["property"] in m.get("checks_fired", "").split()
    fired = m.get("checks_fired", "")
    out.append(f"| {m['id']} | {m['property']} | {desc} | {c['existing_test_suite_with_patch']} | exit {c['demo_exit_without_patch']} / exit {c['demo_exit_with_patch']} | {fired if fired else 'none'}{'' if own else ' (**owning check silent**)'} |")
text = "\n".join(out) + "\n"
dp = os.path.join(HERE, "DESIGN.md")
s = open(dp).read()
b, e = "<!-- BEGIN GENERATED VALIDATION -->", "<!-- END GENERATED VALIDATION -->"
if b in s and e in s:
    s = s[: s.index(b) + len(b)] + "\n" + text + s[s.index(e):]
    open(dp, "w").write(s)
    print("DESIGN.md section 8 tables updated")
else:
    print(text)
