//! Shared workload for the statistics properties (C13, C14, C19): generated
//! single-right-hand-side problems fitted with `fit_with_statistics`, and the
//! oracle's model-function Jacobian.

use crate::gen::*;
use crate::la::Mat;
use crate::problem::*;
use crate::props::c12::shape_model;
use crate::rng::Rng;
use crate::sc::{widen, Sc};
use crate::spy::{Spy, SpyCtl};
use crate::zoo::*;
use varpro::statistics::FitStatistics;

/// statistics of a problem over the harness's forwarding model wrapper, or over varpro's own
/// builder-made `SeparableModel` handed to the problem directly ("raw"). The wrapper forwards only
/// the required trait methods, so anything `SeparableModel` specialises beyond them is reachable
/// through the raw path only.
pub enum AnyStats<T: Sc> {
    Spied(FitStatistics<Spy<T>>),
    Raw(FitStatistics<varpro::model::SeparableModel<T>>),
    /// a *clone* of the statistics of a problem over the Clone-able hand-written model
    HandClone(FitStatistics<HandModel<T>>),
}

macro_rules! fwd {
    ($self:ident, $s:ident => $e:expr) => {
        match $self {
            AnyStats::Spied($s) => $e,
            AnyStats::Raw($s) => $e,
            AnyStats::HandClone($s) => $e,
        }
    };
}

impl<T: Sc> AnyStats<T> {
    pub fn covariance_matrix(&self) -> &nalgebra::DMatrix<T> {
        fwd!(self, s => s.covariance_matrix())
    }
    pub fn calculate_correlation_matrix(&self) -> nalgebra::DMatrix<T> {
        fwd!(self, s => s.calculate_correlation_matrix())
    }
    /// the deprecated alias of `calculate_correlation_matrix`
    #[allow(deprecated)]
    pub fn correlation_matrix_deprecated(&self) -> nalgebra::DMatrix<T> {
        fwd!(self, s => s.correlation_matrix())
    }
    pub fn weighted_residuals(&self) -> nalgebra::DVector<T> {
        fwd!(self, s => s.weighted_residuals())
    }
    pub fn regression_standard_error(&self) -> T {
        fwd!(self, s => s.regression_standard_error())
    }
    pub fn reduced_chi2(&self) -> T {
        fwd!(self, s => s.reduced_chi2())
    }
    pub fn nonlinear_parameters_variance(&self) -> nalgebra::DVector<T> {
        fwd!(self, s => s.nonlinear_parameters_variance())
    }
    pub fn linear_coefficients_variance(&self) -> nalgebra::DVector<T> {
        fwd!(self, s => s.linear_coefficients_variance())
    }
    pub fn confidence_band_radius(&self, p: T) -> nalgebra::DVector<T> {
        fwd!(self, s => s.confidence_band_radius(p))
    }
    pub fn is_raw(&self) -> bool {
        matches!(self, AnyStats::Raw(_))
    }
    pub fn is_clone(&self) -> bool {
        matches!(self, AnyStats::HandClone(_))
    }
}

pub struct StatFit<T: Sc> {
    pub spec: ProblemSpec,
    /// best fit as reported by the fit result (unweighted model values at the solution)
    pub best_fit: Option<Vec<f64>>,
    /// set when `stats` is a clone whose accessors differ from the original's
    pub clone_problem: Option<String>,
    pub stats: AnyStats<T>,
    pub alpha: Vec<f64>,
    /// M×1
    pub c: Mat,
    pub n: usize,
    pub m: usize,
    pub p: usize,
    pub nu: usize,
    pub class: &'static str,
}

/// unweighted model-function Jacobian J = [Φ | D_1 c | … | D_P c] and weighted H = W·J (oracle)
pub fn oracle_jacobians<T: Sc>(spec: &ProblemSpec, alpha: &[f64], c: &Mat) -> (Mat, Mat) {
    let phi = spec.model.phi64::<T>(alpha);
    let n = phi.r;
    let m = phi.c;
    let p = spec.model.np();
    let mut j = Mat::zeros(n, m + p);
    for col in 0..m {
        j.col_mut(col).copy_from_slice(phi.col(col));
    }
    for k in 0..p {
        let dk = spec.model.dphi64::<T>(alpha, k).mul(c);
        j.col_mut(m + k).copy_from_slice(dk.col(0));
    }
    let w = spec.w64::<T>();
    let h = j.row_scale(&w);
    (j, h)
}

/// problem classes: "well-determined" (shapes over (M,P) in 1..5 x 1..4 with shared parameters,
/// small degrees of freedom), "lmfit-like" decays, and "over-parameterised/noisy"
pub fn gen_stat_spec(rng: &mut Rng, is_f64: bool) -> Option<(ProblemSpec, &'static str)> {
    let (mut spec, class) = gen_stat_spec_inner(rng)?;
    // badly scaled variants: observations in tiny or huge units, weights in other units. The
    // statistics are equivariant under such scalings; conditioning is judged after column scaling.
    if rng.chance(0.25) {
        // f32 has only ~1e±38 of range and the statistics square the units: keep its scalings modest
        if rng.chance(0.35) {
            // observations in tiny units with the usual 1/sigma weights (which are then huge): the
            // weighted problem is of unit scale, the linear coefficients and their variances are not
            let span = if is_f64 { 60.0 } else { 23.0 };
            let k = rng.range(3.0, span).round();
            let f = 10f64.powf(-k);
            spec.y = spec.y.scale(f);
            let n = spec.y.r;
            let w0 = spec.w.clone().unwrap_or_else(|| vec![1.0; n]);
            // weights between 1 and 1/f (rescaled 1/sigma); in f32 the squares of the weighted
            // quantities must stay inside the range of the type, which caps the weights at 1e14
            // and the weighted data must stay above 1e-12 (their squares enter H^T H and chi^2)
            let glo = if is_f64 { 0.0 } else { (k - 12.0).max(0.0) };
            let gexp = rng.range(glo, k).round().clamp(glo, if is_f64 { 140.0 } else { 14.0 });
            let g = 10f64.powf(gexp);
            spec.w = Some(w0.iter().map(|v| v * g).collect());
            return Some((spec, "tiny units with compensating 1/sigma weights"));
        }
        let span = if is_f64 { 19.0 } else { 5.0 };
        let f = 10f64.powf(rng.range(-span, span).round());
        spec.y = spec.y.scale(f);
        if let (true, Some(w)) = (rng.chance(0.4), spec.w.as_mut()) {
            let g = 10f64.powf(rng.range(-span / 2.5, span / 2.5).round());
            for v in w.iter_mut() {
                *v *= g;
            }
        }
        return Some((spec, class_scaled(class)));
    }
    Some((spec, class))
}

fn class_scaled(c: &'static str) -> &'static str {
    match c {
        "large sample (N in 2048..4600)" => "large sample (badly scaled units)",
        "shape sweep" => "shape sweep (badly scaled units)",
        "separated decays" => "separated decays (badly scaled units)",
        "row of zeros (functions and derivatives vanish at x=0)" => "row of zeros (badly scaled units)",
        _ => "over-parameterised noisy (badly scaled units)",
    }
}

fn gen_stat_spec_inner(rng: &mut Rng) -> Option<(ProblemSpec, &'static str)> {
    if rng.chance(0.02) {
        // many observations (thousands), sample counts with awkward remainders, heavy weights on the tail
        let k = rng.int(1, 2);
        let n = rng.int(2048, 4600) | 1;
        let mut taus = vec![rng.range(0.5, 2.0)];
        if k == 2 {
            taus.push(taus[0] * rng.range(3.0, 6.0));
        }
        let x = grid(rng, n, 0.0, 4.0 * taus[k - 1], false);
        let mut g = gen_problem_for(rng, &GenOpts { noise: 0.01, force_s: Some(1), ..Default::default() }, z1(x, k, true), taus.clone());
        g.spec.mrhs = false;
        g.spec.par = rng.chance(0.7);
        g.spec.alpha0 = perturb_alpha(rng, &taus, 0.02);
        let mut w: Vec<f64> = (0..n).map(|_| rng.range(0.5, 2.0)).collect();
        for i in (n - rng.int(1, 9))..n {
            w[i] *= rng.range(10.0, 80.0);
        }
        g.spec.w = Some(w);
        return Some((g.spec, "large sample (N in 2048..4600)"));
    }
    if rng.chance(0.06) {
        // every basis function and every derivative vanishes at the first sample (x = 0): the model
        // Jacobian has a row of zeros there, and the band radius at that sample is exactly 0
        let two = rng.chance(0.5);
        let lin = rng.chance(0.5);
        let mut basis = vec![Basis::Sin(0)];
        if two {
            basis.push(Basis::Sin(1));
        }
        if lin {
            basis.insert(rng.below(basis.len() + 1), Basis::Lin);
        }
        let p = 1 + two as usize;
        let m = basis.len();
        let n = m + p + rng.int(1, 30);
        let hi = rng.range(5.0, 7.0);
        let mut x = grid(rng, n, 0.0, hi, false);
        x[0] = 0.0;
        let mut alpha = vec![rng.range(0.7, 1.1)];
        if two {
            alpha.push(alpha[0] * rng.range(1.9, 2.6));
        }
        let noise = 10f64.powf(rng.range(-4.0, -2.0));
        let mut g = gen_problem_for(rng, &GenOpts { noise, force_s: Some(1), ..Default::default() }, ModelSpec { x, basis, np: p }, alpha.clone());
        g.spec.mrhs = false;
        g.spec.alpha0 = perturb_alpha(rng, &alpha, 0.02);
        return Some((g.spec, "row of zeros (functions and derivatives vanish at x=0)"));
    }
    let class = rng.below(10);
    if class < 6 {
        let m = rng.int(1, 5);
        let p = rng.int(1, 4);
        let nu = rng.int(1, 30);
        let n = m + p + nu;
        let (mspec, alpha) = shape_model(rng, n, m, p)?;
        let noise = 10f64.powf(rng.range(-4.0, -1.0));
        let mut g = gen_problem_for(rng, &GenOpts { noise, force_s: Some(1), ..Default::default() }, mspec, alpha.clone());
        g.spec.mrhs = false;
        g.spec.alpha0 = perturb_alpha(rng, &alpha, 0.03);
        Some((g.spec, "shape sweep"))
    } else if class < 8 {
        let k = rng.int(1, 3);
        let nu = rng.int(1, 30);
        let offset = rng.chance(0.6);
        let n = 2 * k + offset as usize + nu;
        let mut taus = vec![rng.range(0.5, 2.0)];
        for i in 1..k {
            taus.push(taus[i - 1] * rng.range(3.0, 6.0));
        }
        let x = grid(rng, n, 0.0, 4.0 * taus[k - 1], false);
        let noise = 10f64.powf(rng.range(-4.0, -1.5));
        let mut g = gen_problem_for(rng, &GenOpts { noise, force_s: Some(1), ..Default::default() }, z1(x, k, offset), taus.clone());
        g.spec.mrhs = false;
        g.spec.alpha0 = perturb_alpha(rng, &taus, 0.03);
        Some((g.spec, "separated decays"))
    } else {
        // over-parameterised / noisy: N barely above M+P, decay ratios 2.5..5, noise up to 10%
        let k = 3;
        let n = 2 * k + 1 + rng.int(1, 4);
        let mut taus = vec![rng.range(0.5, 1.5)];
        for i in 1..k {
            taus.push(taus[i - 1] * rng.range(2.5, 5.0));
        }
        let x = grid(rng, n, 0.0, 2.0 * taus[k - 1], false);
        let noise = rng.range(0.01, 0.1);
        let mut g = gen_problem_for(rng, &GenOpts { noise, force_s: Some(1), ..Default::default() }, z1(x, k, true), taus.clone());
        g.spec.mrhs = false;
        g.spec.w = if rng.chance(0.5) { None } else { g.spec.w };
        g.spec.alpha0 = perturb_alpha(rng, &taus, 0.03);
        Some((g.spec, "over-parameterised noisy"))
    }
}

pub fn fit_stats<T: Sc>(spec: &ProblemSpec, cfg: &LmCfg, class: &'static str) -> Option<Result<StatFit<T>, String>> {
    let n = spec.model.n();
    let m = spec.model.m();
    let p = spec.model.np();
    // builder-made models go to the problem without the wrapper in two cases out of three
    if let (ModelKind::Built(ms), true) = (&spec.model, spec.hash() % 3 != 0) {
        use crate::sc::dvec;
        use varpro::solvers::levmar::{LevMarProblemBuilder, LevMarSolver};
        let model = build_model::<T>(ms, &spec.alpha0);
        macro_rules! go {
            ($ctor:ident) => {{
                let mut b = LevMarProblemBuilder::$ctor(model).observations(dvec::<T>(spec.y.col(0)));
                if let Some(w) = &spec.w {
                    b = b.weights(dvec::<T>(w));
                }
                if let Some(e) = spec.eps {
                    b = b.epsilon(T::of(e));
                }
                let prob = b.build().ok()?;
                match LevMarSolver::with_solver(cfg.make::<T>()).fit_with_statistics(prob) {
                    Ok((fit, stats)) => {
                        let alpha: Vec<f64> = fit.nonlinear_parameters().iter().map(|v| v.w()).collect();
                        let cv = fit.linear_coefficients()?;
                        let c = Mat::from_fn(cv.len(), 1, |i, _| cv[i].w());
                        let best_fit = fit.best_fit().map(|b| b.iter().map(|v| v.w()).collect());
                        Some(Ok(StatFit { spec: spec.clone(), best_fit, clone_problem: None, stats: AnyStats::Raw(stats), alpha, c, n, m, p, nu: n - m - p, class }))
                    }
                    Err(f) => Some(Err(format!("{:?}", f.minimization_report.termination))),
                }
            }};
        }
        return if spec.par { go!(new_parallel) } else { go!(new) };
    }
    // hand-written models are Clone: in one case out of three the statistics object that is judged
    // is a clone of the one returned (a clone is a statistics object like any other)
    if let (ModelKind::Hand(ms), true) = (&spec.model, spec.hash() % 3 == 1) {
        use crate::sc::{bits_of, dvec};
        use varpro::solvers::levmar::{LevMarProblemBuilder, LevMarSolver};
        let model = HandModel::<T>::new(ms, &spec.alpha0);
        macro_rules! go {
            ($ctor:ident) => {{
                let mut b = LevMarProblemBuilder::$ctor(model).observations(dvec::<T>(spec.y.col(0)));
                if let Some(w) = &spec.w {
                    b = b.weights(dvec::<T>(w));
                }
                if let Some(e) = spec.eps {
                    b = b.epsilon(T::of(e));
                }
                let prob = b.build().ok()?;
                match LevMarSolver::with_solver(cfg.make::<T>()).fit_with_statistics(prob) {
                    Ok((fit, stats)) => {
                        let alpha: Vec<f64> = fit.nonlinear_parameters().iter().map(|v| v.w()).collect();
                        let cv = fit.linear_coefficients()?;
                        let c = Mat::from_fn(cv.len(), 1, |i, _| cv[i].w());
                        let best_fit = fit.best_fit().map(|b| b.iter().map(|v| v.w()).collect());
                        let copy = stats.clone();
                        let mut clone_problem = None;
                        let same = |a: Vec<u64>, b: Vec<u64>, what: &str, cp: &mut Option<String>| {
                            if a != b && cp.is_none() {
                                *cp = Some(format!("{what} of a cloned statistics object differs from the original's ({} vs {} elements)", b.len(), a.len()));
                            }
                        };
                        same(bits_of(stats.covariance_matrix()), bits_of(copy.covariance_matrix()), "covariance_matrix", &mut clone_problem);
                        same(bits_of(&stats.linear_coefficients_variance()), bits_of(&copy.linear_coefficients_variance()), "linear_coefficients_variance", &mut clone_problem);
                        same(bits_of(&stats.nonlinear_parameters_variance()), bits_of(&copy.nonlinear_parameters_variance()), "nonlinear_parameters_variance", &mut clone_problem);
                        same(bits_of(&stats.weighted_residuals()), bits_of(&copy.weighted_residuals()), "weighted_residuals", &mut clone_problem);
                        same(vec![stats.reduced_chi2().bits()], vec![copy.reduced_chi2().bits()], "reduced_chi2", &mut clone_problem);
                        same(bits_of(&stats.confidence_band_radius(T::of(0.9))), bits_of(&copy.confidence_band_radius(T::of(0.9))), "confidence_band_radius(0.9)", &mut clone_problem);
                        Some(Ok(StatFit { spec: spec.clone(), best_fit, clone_problem, stats: AnyStats::HandClone(copy), alpha, c, n, m, p, nu: n - m - p, class }))
                    }
                    Err(f) => Some(Err(format!("{:?}", f.minimization_report.termination))),
                }
            }};
        }
        return if spec.par { go!(new_parallel) } else { go!(new) };
    }
    let prob = build_problem::<T>(spec, &SpyCtl::new()).ok()?;
    match prob.fit_with_statistics(&cfg.make::<T>()) {
        Ok((fit, stats)) => {
            let alpha: Vec<f64> = fit.nonlinear_parameters().iter().map(|v| v.w()).collect();
            let c = widen(&fit.coeffs()?);
            let best_fit = fit.best_fit().map(|b| b.iter().map(|v| v.w()).collect());
            Some(Ok(StatFit { spec: spec.clone(), best_fit, clone_problem: None, stats: AnyStats::Spied(stats), alpha, c, n, m, p, nu: n - m - p, class }))
        }
        Err(f) => Some(Err(f.termination())),
    }
}

/// sigma^2 = |W (y - Phi(alpha^) c^)|^2 / (N - M - P) recomputed by the oracle in f64 from the supplied data
/// and the *reported* alpha^, c^ - independent of every quantity the statistics report. Returns
/// (sigma^2, relative tolerance); None where the residual is dominated by the rounding of its own
/// ingredients in T (then sigma^2 is not determined by the reported numbers).
pub fn oracle_sigma2<T: Sc>(spec: &ProblemSpec, alpha: &[f64], c: &Mat, nu: usize) -> Option<(f64, f64)> {
    if nu == 0 {
        return None;
    }
    let phi = spec.model.phi64::<T>(alpha);
    let w = spec.w64::<T>();
    let y = spec.y64::<T>();
    if !phi.all_finite() || !c.all_finite() {
        return None;
    }
    let fit = phi.mul(c);
    let absfit = phi.abs().mul(&c.abs());
    let (mut ss, mut rounding) = (0.0f64, 0.0f64);
    for i in 0..phi.r {
        let r = w[i] * (y.at(i, 0) - fit.at(i, 0));
        ss += r * r;
        let e = w[i].abs() * (y.at(i, 0).abs() + absfit.at(i, 0)) * (phi.c as f64 + 2.0) * T::EPS;
        rounding += e * e;
    }
    if !(ss.is_finite()) || ss <= 0.0 {
        return None;
    }
    // relative uncertainty of |r|^2 caused by rounding of the residual's ingredients: 2|delta|/|r|
    let rel = 64.0 * 2.0 * (rounding / ss).sqrt() + 1e-12;
    if rel > 1e-2 {
        return None;
    }
    Some((ss / nu as f64, rel))
}

/// Column-equilibrated view of the weighted model Jacobian: d_i = |h_i|, G = (H D^-1)^T (H D^-1)
/// and its condition number. Cholesky-based inversion is accurate relative to *this* condition
/// number (van der Sluis), so badly scaled but otherwise well-posed problems stay decidable.
pub fn scaled_normal_matrix(h: &Mat) -> Option<(Vec<f64>, Mat, f64)> {
    if !h.all_finite() {
        return None;
    }
    let d: Vec<f64> = (0..h.c).map(|j| crate::la::norm2(h.col(j))).collect();
    if d.iter().any(|v| !(*v > 0.0) || !v.is_finite()) {
        return None;
    }
    let hs = Mat::from_fn(h.r, h.c, |i, j| h.at(i, j) / d[j]);
    let g = hs.tmul(&hs);
    let (ev, _) = crate::la::sym_eig(&g);
    let lmax = ev.iter().cloned().fold(f64::MIN, f64::max);
    let lmin = ev.iter().cloned().fold(f64::MAX, f64::min);
    if !(lmin > 0.0) {
        return None;
    }
    Some((d, g, lmax / lmin))
}

/// The oracle's own (H^T H)^-1 in f64 through the column-equilibrated normal matrix:
/// (H^T H)^-1 = D^-1 V diag(1/lambda) V^T D^-1, prepared once per fit.
pub struct OracleInverse {
    d: Vec<f64>,
    ev: Vec<f64>,
    v: Mat,
}

impl OracleInverse {
    pub fn new(d: &[f64], g: &Mat) -> OracleInverse {
        let (ev, v) = crate::la::sym_eig(g);
        OracleInverse { d: d.to_vec(), ev, v }
    }
    /// j^T (H^T H)^-1 j = | Lambda^-1/2 V^T D^-1 j |^2
    pub fn quad(&self, j_row: &[f64]) -> f64 {
        let z: Vec<f64> = j_row.iter().zip(&self.d).map(|(a, b)| a / b).collect();
        let mut s = 0.0;
        for k in 0..self.ev.len() {
            let proj = crate::la::dot(self.v.col(k), &z);
            s += proj * proj / self.ev[k];
        }
        s
    }
}
