//! Shared workload for the statistics properties (C13, C14, C19): generated
//! single-right-hand-side problems fitted with `fit_with_statistics`, and the
//! oracle's model-function Jacobian.

use crate::gen::*;
use crate::la::Mat;
use crate::problem::*;
use crate::props::c12::shape_model;
use crate::rng::Rng;
use crate::sc::{widen, Sc};
use crate::spy::{Spy, SpyCtl};
use crate::zoo::*;
use varpro::statistics::FitStatistics;

pub struct StatFit<T: Sc> {
    pub spec: ProblemSpec,
    pub fit: AnyFit<T>,
    pub stats: FitStatistics<Spy<T>>,
    pub alpha: Vec<f64>,
    /// M×1
    pub c: Mat,
    pub n: usize,
    pub m: usize,
    pub p: usize,
    pub nu: usize,
    pub class: &'static str,
}

/// unweighted model-function Jacobian J = [Φ | D_1 c | … | D_P c] and weighted H = W·J (oracle)
pub fn oracle_jacobians<T: Sc>(spec: &ProblemSpec, alpha: &[f64], c: &Mat) -> (Mat, Mat) {
    let phi = spec.model.phi64::<T>(alpha);
    let n = phi.r;
    let m = phi.c;
    let p = spec.model.np();
    let mut j = Mat::zeros(n, m + p);
    for col in 0..m {
        j.col_mut(col).copy_from_slice(phi.col(col));
    }
    for k in 0..p {
        let dk = spec.model.dphi64::<T>(alpha, k).mul(c);
        j.col_mut(m + k).copy_from_slice(dk.col(0));
    }
    let w = spec.w64::<T>();
    let h = j.row_scale(&w);
    (j, h)
}

/// problem classes: "well-determined" (shapes over (M,P) in 1..5 x 1..4 with shared parameters,
/// small degrees of freedom), "lmfit-like" decays, and "over-parameterised/noisy"
pub fn gen_stat_spec(rng: &mut Rng) -> Option<(ProblemSpec, &'static str)> {
    let class = rng.below(10);
    if class < 6 {
        let m = rng.int(1, 5);
        let p = rng.int(1, 4);
        let nu = rng.int(1, 30);
        let n = m + p + nu;
        let (mspec, alpha) = shape_model(rng, n, m, p)?;
        let noise = 10f64.powf(rng.range(-4.0, -1.0));
        let mut g = gen_problem_for(rng, &GenOpts { noise, force_s: Some(1), ..Default::default() }, mspec, alpha.clone());
        g.spec.mrhs = false;
        g.spec.alpha0 = perturb_alpha(rng, &alpha, 0.03);
        Some((g.spec, "shape sweep"))
    } else if class < 8 {
        let k = rng.int(1, 3);
        let nu = rng.int(1, 30);
        let offset = rng.chance(0.6);
        let n = 2 * k + offset as usize + nu;
        let mut taus = vec![rng.range(0.5, 2.0)];
        for i in 1..k {
            taus.push(taus[i - 1] * rng.range(3.0, 6.0));
        }
        let x = grid(rng, n, 0.0, 4.0 * taus[k - 1], false);
        let noise = 10f64.powf(rng.range(-4.0, -1.5));
        let mut g = gen_problem_for(rng, &GenOpts { noise, force_s: Some(1), ..Default::default() }, z1(x, k, offset), taus.clone());
        g.spec.mrhs = false;
        g.spec.alpha0 = perturb_alpha(rng, &taus, 0.03);
        Some((g.spec, "separated decays"))
    } else {
        // over-parameterised / noisy: N barely above M+P, decay ratios 2.5..5, noise up to 10%
        let k = 3;
        let n = 2 * k + 1 + rng.int(1, 4);
        let mut taus = vec![rng.range(0.5, 1.5)];
        for i in 1..k {
            taus.push(taus[i - 1] * rng.range(2.5, 5.0));
        }
        let x = grid(rng, n, 0.0, 2.0 * taus[k - 1], false);
        let noise = rng.range(0.01, 0.1);
        let mut g = gen_problem_for(rng, &GenOpts { noise, force_s: Some(1), ..Default::default() }, z1(x, k, true), taus.clone());
        g.spec.mrhs = false;
        g.spec.w = if rng.chance(0.5) { None } else { g.spec.w };
        g.spec.alpha0 = perturb_alpha(rng, &taus, 0.03);
        Some((g.spec, "over-parameterised noisy"))
    }
}

pub fn fit_stats<T: Sc>(spec: &ProblemSpec, cfg: &LmCfg, class: &'static str) -> Option<Result<StatFit<T>, String>> {
    let prob = build_problem::<T>(spec, &SpyCtl::new()).ok()?;
    match prob.fit_with_statistics(&cfg.make::<T>()) {
        Ok((fit, stats)) => {
            let alpha: Vec<f64> = fit.nonlinear_parameters().iter().map(|v| v.w()).collect();
            let c = widen(&fit.coeffs()?);
            let n = spec.model.n();
            let m = spec.model.m();
            let p = spec.model.np();
            Some(Ok(StatFit { spec: spec.clone(), fit, stats, alpha, c, n, m, p, nu: n - m - p, class }))
        }
        Err(f) => Some(Err(f.termination())),
    }
}
