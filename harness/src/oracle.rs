//! Certificates and reference comparisons shared by several properties.
//! Everything here computes in f64 with the oracle's own kit.

use crate::la::{self, Mat};
use crate::problem::{AnyProblem, ProblemSpec};
use crate::sc::{widen, Sc};
use nalgebra::DMatrix;

// tolerance multipliers (compile-time constants; DESIGN §3.4)
pub const TAU_NORMAL_EQ: f64 = 64.0;
pub const TAU_RESID: f64 = 16.0;
pub const TAU_COEFF: f64 = 256.0;
pub const TAU_JAC: f64 = 256.0;
pub const TAU_JAC_ORTH: f64 = 256.0;
/// measured SVD reconstruction error above which a strict-certificate failure
/// may be attributed to the dependency (KF-1), in units of ε
pub const KF1_MIN_E: f64 = 16.0;

/// smallest positive normal number of the scalar type whose machine epsilon is `eps`: element-wise
/// tolerances need this absolute floor, because results in the sub-normal range have no relative accuracy
pub fn tiny_for(eps: f64) -> f64 {
    if eps > 1e-10 {
        f32::MIN_POSITIVE as f64
    } else {
        f64::MIN_POSITIVE
    }
}

/// The oracle's view of one problem state
pub struct View {
    pub n: usize,
    pub m: usize,
    pub s: usize,
    /// W·Φ(α) with Φ from the oracle's formulas (evaluated in T), W rounded through T
    pub phi_w: Mat,
    /// unweighted Φ
    pub phi: Mat,
    pub w: Vec<f64>,
    /// singular values of phi_w (descending)
    pub sv: Vec<f64>,
}

impl View {
    pub fn new<T: Sc>(spec: &ProblemSpec, alpha: &[f64]) -> View {
        let phi = spec.model.phi64::<T>(alpha);
        let w = spec.w64::<T>();
        let phi_w = phi.row_scale(&w);
        let sv = if phi_w.all_finite() { la::singular_values(&phi_w) } else { vec![f64::NAN; phi.c.min(phi.r)] };
        View { n: phi.r, m: phi.c, s: spec.s(), phi_w, phi, w, sv }
    }
    pub fn sigma1(&self) -> f64 {
        self.sv[0]
    }
    pub fn sigma_min(&self) -> f64 {
        *self.sv.last().unwrap()
    }
    pub fn kappa(&self) -> f64 {
        if self.sigma_min() > 0.0 {
            self.sigma1() / self.sigma_min()
        } else {
            f64::INFINITY
        }
    }
    /// Classification against an absolute threshold: Some((kept, kappa of the kept part)) if
    /// every singular value lies decisively above (> 8·thr) or below (<= thr/8) the threshold
    /// and the threshold lies above the noise floor of a backward-stable decomposition.
    pub fn decisive_rank(&self, thr: f64, eps: f64) -> Option<(usize, f64)> {
        if !self.finite() || self.sv.is_empty() || self.sigma1() <= 0.0 {
            return None;
        }
        let noise = 8.0 * eps * self.sigma1() * ((self.n * self.m) as f64).sqrt();
        if 64.0 * noise > thr {
            return None;
        }
        if self.sv.iter().any(|s| *s > thr / 8.0 && *s < thr * 8.0) {
            return None;
        }
        let kept = self.sv.iter().filter(|s| **s > thr).count();
        if kept == 0 {
            return None;
        }
        Some((kept, self.sigma1() / self.sv[kept - 1]))
    }
    pub fn finite(&self) -> bool {
        self.phi_w.all_finite() && self.sv.iter().all(|s| s.is_finite())
    }
}

/// Normal-equation certificate. Returns the worst ratio ‖g_s‖ / bound_s over
/// the columns, with bound = τ (ε√(NM) + e) σ₁ (σ₁‖c_s‖ + ‖y_s‖).
pub fn normal_eq_ratio(v: &View, yw: &Mat, c: &Mat, eps: f64, e_extra: f64) -> f64 {
    let r = yw.sub(&v.phi_w.mul(c));
    let g = v.phi_w.tmul(&r);
    let mut worst: f64 = 0.0;
    let nm = ((v.n * v.m) as f64).sqrt();
    for s in 0..c.c {
        let gn = la::norm2(g.col(s));
        let bound = TAU_NORMAL_EQ * (eps * nm + e_extra) * v.sigma1() * (v.sigma1() * la::norm2(c.col(s)) + la::norm2(yw.col(s)));
        let ratio = if bound > 0.0 { gn / bound } else if gn == 0.0 { 0.0 } else { f64::INFINITY };
        if !(ratio <= worst) {
            worst = ratio;
        }
    }
    worst
}

/// Residual identity r = vec(Y_w − Φ_w C): worst |Δr_i| / tol_i
pub fn residual_identity_ratio(v: &View, yw: &Mat, c: &Mat, resid: &[f64], eps: f64) -> f64 {
    if resid.len() != v.n * c.c {
        return f64::INFINITY;
    }
    let fit = v.phi_w.mul(c);
    let absfit = v.phi_w.abs().mul(&c.abs());
    let mut worst: f64 = 0.0;
    for s in 0..c.c {
        for i in 0..v.n {
            let want = yw.at(i, s) - fit.at(i, s);
            let tol = TAU_RESID * eps * (v.m as f64) * (yw.at(i, s).abs() + absfit.at(i, s)) + 64.0 * tiny_for(eps);
            let ratio = (resid[s * v.n + i] - want).abs() / tol;
            if !(ratio <= worst) {
                worst = ratio;
            }
        }
    }
    worst
}

/// Reference least-squares coefficients through the oracle's QR and the
/// forward-error ratio of the reported ones.
pub fn coeff_reference_ratio(v: &View, yw: &Mat, c: &Mat, eps: f64, kept: usize, thr: f64) -> f64 {
    let cref = if kept == v.m { la::qr_solve(&v.phi_w, yw) } else { la::pinv_solve(&v.phi_w, yw, thr) };
    let kappa = v.sigma1() / v.sv[kept - 1];
    let r = yw.sub(&v.phi_w.mul(&cref));
    let mut worst: f64 = 0.0;
    for s in 0..c.c {
        let dc: Vec<f64> = (0..v.m).map(|i| c.at(i, s) - cref.at(i, s)).collect();
        let tol = TAU_COEFF * eps * (kappa * la::norm2(cref.col(s)) + kappa * kappa * la::norm2(r.col(s)) / v.sigma1())
            + f64::MIN_POSITIVE;
        let ratio = la::norm2(&dc) / tol;
        if !(ratio <= worst) {
            worst = ratio;
        }
    }
    worst
}

/// Kaufman Jacobian reference. `dphis[k]` = oracle ∂Φ/∂α_k (unweighted).
/// Returns (worst reference ratio, worst orthogonality ratio).
pub fn jacobian_ratios(v: &View, c: &Mat, jac: &Mat, dphis: &[Mat], eps: f64, e_extra: f64) -> (f64, f64) {
    let p = dphis.len();
    if jac.r != v.n * c.c || jac.c != p {
        return (f64::INFINITY, f64::INFINITY);
    }
    let (q, _r) = la::qr(&v.phi_w);
    let kappa = v.kappa();
    let mut worst_ref: f64 = 0.0;
    let mut worst_orth: f64 = 0.0;
    let rn = (v.n as f64).sqrt();
    let nm = ((v.n * v.m) as f64).sqrt();
    for k in 0..p {
        let b = dphis[k].row_scale(&v.w).mul(c); // N×S
        let qtb = q.tmul(&b);
        let proj = q.mul(&qtb);
        for s in 0..c.c {
            let bn = la::norm2(b.col(s));
            let mut diff = vec![0.0; v.n];
            let mut jcol = vec![0.0; v.n];
            for i in 0..v.n {
                let want = proj.at(i, s) - b.at(i, s);
                let got = jac.at(s * v.n + i, k);
                diff[i] = got - want;
                jcol[i] = got;
            }
            let scale = eps + e_extra / nm;
            let tol = TAU_JAC * scale * kappa * rn * bn + f64::MIN_POSITIVE;
            let ratio = la::norm2(&diff) / tol;
            if !(ratio <= worst_ref) {
                worst_ref = ratio;
            }
            let orth = v.phi_w.tmul(&Mat::colvec(&jcol));
            let tol_o = TAU_JAC_ORTH * scale * kappa * v.sigma1() * bn * rn + f64::MIN_POSITIVE;
            let ratio_o = la::norm2(&orth.d) / tol_o;
            if !(ratio_o <= worst_orth) {
                worst_orth = ratio_o;
            }
        }
    }
    (worst_ref, worst_orth)
}

/// Reconstruction error e = ‖UΣVᵀ − A‖_F / σ₁ of the dependency's SVD on the
/// very matrix varpro decomposes (same public constructor, same ε, bounded
/// iteration count, panics caught). None: the constructor panicked, did not
/// converge or produced non-finite output.
pub fn dependency_svd_error<T: Sc>(a: &DMatrix<T>) -> Option<f64> {
    if a.iter().any(|v| !v.fin()) || a.is_empty() {
        return None;
    }
    let a2 = a.clone();
    let r = crate::run::guarded(move || {
        nalgebra::SVD::try_new(a2, true, true, <T as num_traits::Float>::epsilon() * T::of(5.0), 100_000)
    });
    let svd = match r {
        Ok(Some(s)) => s,
        _ => return None,
    };
    let u = widen(svd.u.as_ref()?);
    let vt = widen(svd.v_t.as_ref()?);
    let s: Vec<f64> = svd.singular_values.iter().map(|x| x.w()).collect();
    if s.iter().any(|x| !x.is_finite()) || !u.all_finite() || !vt.all_finite() {
        // the decomposition is unusable (varpro's calculate_svd rejects it as well)
        return None;
    }
    let us = Mat::from_fn(u.r, u.c, |i, j| u.at(i, j) * s[j]);
    let rec = us.mul(&vt);
    let a64 = widen(a);
    let s1 = s.iter().fold(0.0f64, |m, x| m.max(*x));
    if s1 == 0.0 {
        return Some(0.0);
    }
    Some(rec.sub(&a64).fro() / s1)
}

pub fn dependency_svd_error_of<T: Sc>(p: &AnyProblem<T>) -> Option<f64> {
    p.weighted_phi().and_then(|m| dependency_svd_error::<T>(&m))
}

/// W·Φ(α) exactly as varpro forms it: the model's own `eval` at α multiplied by
/// varpro's public `Weights` type.
pub fn weighted_phi_at<T: Sc>(spec: &ProblemSpec, alpha: &[f64]) -> Option<DMatrix<T>> {
    use varpro::prelude::SeparableNonlinearModel;
    let model = spec.model.instantiate::<T>(alpha);
    let phi = model.eval().ok()?;
    let weights: varpro::util::Weights<T, nalgebra::Dyn> = match &spec.w {
        Some(w) => varpro::util::Weights::diagonal(crate::sc::dvec::<T>(w)),
        None => varpro::util::Weights::default(),
    };
    Some(&weights * phi)
}

pub fn dependency_svd_error_at<T: Sc>(spec: &ProblemSpec, alpha: &[f64]) -> Option<f64> {
    weighted_phi_at::<T>(spec, alpha).and_then(|m| dependency_svd_error::<T>(&m))
}

pub fn objective(resid: &[f64]) -> f64 {
    0.5 * la::dot(resid, resid)
}
