//! Snapshots of a problem's observable state and comparisons between twins.

use crate::la::{self, Mat};
use crate::oracle::View;
use crate::problem::AnyProblem;
use crate::sc::{bits_of, widen, Sc};

#[derive(Clone, Debug)]
pub struct Snap {
    pub params: Vec<f64>,
    pub params_bits: Vec<u64>,
    pub resid: Option<Vec<f64>>,
    pub resid_bits: Option<Vec<u64>>,
    pub coeff: Option<Mat>,
    pub coeff_bits: Option<Vec<u64>>,
    pub jac: Option<Mat>,
    pub jac_bits: Option<Vec<u64>>,
}

pub fn snap<T: Sc>(p: &AnyProblem<T>, with_jac: bool) -> Snap {
    let params = p.params();
    let r = p.residuals();
    let c = p.coeffs();
    let j = if with_jac { p.jacobian() } else { None };
    Snap {
        params: params.iter().map(|v| v.w()).collect(),
        params_bits: params.iter().map(|v| v.bits()).collect(),
        resid: r.as_ref().map(|r| r.iter().map(|v| v.w()).collect()),
        resid_bits: r.as_ref().map(|r| bits_of(r)),
        coeff: c.as_ref().map(|c| widen(c)),
        coeff_bits: c.as_ref().map(|c| bits_of(c)),
        jac: j.as_ref().map(|j| widen(j)),
        jac_bits: j.as_ref().map(|j| bits_of(j)),
    }
}

/// first bitwise difference between two snapshots, if any
pub fn bit_diff(a: &Snap, b: &Snap) -> Option<String> {
    if a.params_bits != b.params_bits {
        return Some(format!("params {:?} vs {:?}", a.params, b.params));
    }
    if a.resid_bits != b.resid_bits {
        return Some(describe("residuals", a.resid.as_deref(), b.resid.as_deref()));
    }
    if a.coeff_bits != b.coeff_bits {
        return Some(describe("coefficients", a.coeff.as_ref().map(|m| m.d.as_slice()), b.coeff.as_ref().map(|m| m.d.as_slice())));
    }
    if a.jac_bits != b.jac_bits {
        return Some(describe("jacobian", a.jac.as_ref().map(|m| m.d.as_slice()), b.jac.as_ref().map(|m| m.d.as_slice())));
    }
    None
}

fn describe(what: &str, a: Option<&[f64]>, b: Option<&[f64]>) -> String {
    match (a, b) {
        (Some(a), Some(b)) => {
            if a.len() != b.len() {
                return format!("{what}: lengths {} vs {}", a.len(), b.len());
            }
            for i in 0..a.len() {
                if a[i].to_bits() != b[i].to_bits() {
                    return format!("{what}[{i}]: {:e} vs {:e}", a[i], b[i]);
                }
            }
            format!("{what}: shapes differ")
        }
        (a, b) => format!("{what}: present {} vs {}", a.is_some(), b.is_some()),
    }
}

/// numerically equal (==, so that -0 and +0 do not differ; NaN never equal)
pub fn num_equal(a: &Snap, b: &Snap) -> Option<String> {
    fn eq(a: Option<&[f64]>, b: Option<&[f64]>) -> bool {
        match (a, b) {
            (None, None) => true,
            (Some(a), Some(b)) => a.len() == b.len() && a.iter().zip(b).all(|(x, y)| x == y),
            _ => false,
        }
    }
    if !eq(a.resid.as_deref(), b.resid.as_deref()) {
        return Some(describe("residuals", a.resid.as_deref(), b.resid.as_deref()));
    }
    if !eq(a.coeff.as_ref().map(|m| m.d.as_slice()), b.coeff.as_ref().map(|m| m.d.as_slice())) {
        return Some(describe("coefficients", a.coeff.as_ref().map(|m| m.d.as_slice()), b.coeff.as_ref().map(|m| m.d.as_slice())));
    }
    if !eq(a.jac.as_ref().map(|m| m.d.as_slice()), b.jac.as_ref().map(|m| m.d.as_slice())) {
        return Some(describe("jacobian", a.jac.as_ref().map(|m| m.d.as_slice()), b.jac.as_ref().map(|m| m.d.as_slice())));
    }
    None
}

pub const TAU_TWIN: f64 = 512.0;

/// Tolerance-based comparison of two mathematically equal states (twins that
/// may round differently). `v` is the oracle's view of the (weighted) basis at
/// this α, `yw` the weighted data, `dnorm[k]` = ‖W·D_k‖_F. Column `sa` of twin
/// A is compared with column `sb` of twin B. Returns worst ratios for
/// (coefficients, residuals, jacobian) or an error description on presence/shape mismatch.
#[allow(clippy::too_many_arguments)]
pub fn close_ratio(
    v: &View,
    yw_col: &[f64],
    a: &Snap,
    sa: usize,
    b: &Snap,
    sb: usize,
    dnorm: &[f64],
    eps: f64,
) -> Result<(f64, f64, f64), String> {
    close_ratio_k(v, v.kappa(), yw_col, a, sa, b, sb, dnorm, eps)
}

/// as `close_ratio`, with the condition number of the *kept* part supplied by the caller
/// (designed rank-deficient states)
#[allow(clippy::too_many_arguments)]
pub fn close_ratio_k(
    v: &View,
    kappa: f64,
    yw_col: &[f64],
    a: &Snap,
    sa: usize,
    b: &Snap,
    sb: usize,
    dnorm: &[f64],
    eps: f64,
) -> Result<(f64, f64, f64), String> {
    let n = v.n;
    let (ca, cb) = match (&a.coeff, &b.coeff) {
        (Some(x), Some(y)) => (x, y),
        (x, y) => {
            if x.is_none() && y.is_none() {
                return Ok((0.0, 0.0, 0.0));
            }
            return Err(format!("coefficients present {} vs {}", x.is_some(), y.is_some()));
        }
    };
    let s1 = v.sigma1();
    let ynorm = la::norm2(yw_col);
    let c_a = ca.col(sa);
    let c_b = cb.col(sb);
    if c_a.len() != c_b.len() {
        return Err("coefficient lengths differ".into());
    }
    let cn = la::norm2(c_a).max(la::norm2(c_b));
    let (ra, rb) = match (&a.resid, &b.resid) {
        (Some(x), Some(y)) => (x, y),
        _ => return Err("residual presence differs".into()),
    };
    if ra.len() < (sa + 1) * n || rb.len() < (sb + 1) * n {
        return Err("residual length".into());
    }
    let r_a = &ra[sa * n..(sa + 1) * n];
    let r_b = &rb[sb * n..(sb + 1) * n];
    let rn = la::norm2(r_a).max(la::norm2(r_b));
    let dc: Vec<f64> = c_a.iter().zip(c_b).map(|(x, y)| x - y).collect();
    let tol_c = TAU_TWIN * eps * (kappa * cn + kappa * kappa * rn / s1 + kappa * ynorm / s1) + f64::MIN_POSITIVE;
    let rc = la::norm2(&dc) / tol_c;
    let dr: Vec<f64> = r_a.iter().zip(r_b).map(|(x, y)| x - y).collect();
    let tol_r = TAU_TWIN * eps * kappa * (ynorm + s1 * cn) + f64::MIN_POSITIVE;
    let rr = la::norm2(&dr) / tol_r;
    let mut rj: f64 = 0.0;
    match (&a.jac, &b.jac) {
        (Some(ja), Some(jb)) => {
            if ja.c != jb.c {
                return Err("jacobian column counts differ".into());
            }
            for k in 0..ja.c {
                let col_a = &ja.col(k)[sa * n..(sa + 1) * n];
                let col_b = &jb.col(k)[sb * n..(sb + 1) * n];
                let dj: Vec<f64> = col_a.iter().zip(col_b).map(|(x, y)| x - y).collect();
                let tol_j = TAU_TWIN * eps * kappa * dnorm[k] * (cn * (1.0 + kappa) + kappa * kappa * rn / s1 + kappa * ynorm / s1) + f64::MIN_POSITIVE;
                rj = rj.max(la::norm2(&dj) / tol_j);
            }
        }
        (None, None) => {}
        (x, y) => return Err(format!("jacobian present {} vs {}", x.is_some(), y.is_some())),
    }
    Ok((rc, rr, rj))
}
