//! Minimal driver for the interpreter/sanitizer engines (Miri, memcheck, TSan):
//! no poisoning allocator, no process management, arguments via argv only.
//! usage: vpmini <C10|C11|C16|C17> <seed> <cases> <nmax> <len>
fn main() {
    let a: Vec<String> = std::env::args().skip(1).collect();
    if a.len() < 5 {
        eprintln!("usage: vpmini <prop> <seed> <cases> <nmax> <len>");
        std::process::exit(2);
    }
    let seed: u64 = a[1].parse().unwrap();
    let cases: u64 = a[2].parse().unwrap();
    let nmax: usize = a[3].parse().unwrap();
    let len: usize = a[4].parse().unwrap();
    let (obs, sum) = vpcheck::sanitizer_workload(&a[0], seed, cases, nmax, len);
    println!("sanitizer-workload {} {} {:016x}", a[0], obs, sum);
}
