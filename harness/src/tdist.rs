//! The oracle's own Student-t quantile: regularised incomplete beta function
//! (Lentz continued fraction) + bisection. Self-tested against a committed
//! table generated once from scipy.

use crate::t_table::T_TABLE;

fn ln_gamma(x: f64) -> f64 {
    // Lanczos (g=7, n=9)
    const G: f64 = 7.0;
    const C: [f64; 9] = [
        0.999_999_999_999_809_9,
        676.520_368_121_885_1,
        -1_259.139_216_722_402_8,
        771.323_428_777_653_1,
        -176.615_029_162_140_6,
        12.507_343_278_686_905,
        -0.138_571_095_265_720_12,
        9.984_369_578_019_572e-6,
        1.505_632_735_149_311_6e-7,
    ];
    if x < 0.5 {
        let pi = std::f64::consts::PI;
        return (pi / (pi * x).sin()).ln() - ln_gamma(1.0 - x);
    }
    let x = x - 1.0;
    let mut a = C[0];
    let t = x + G + 0.5;
    for (i, c) in C.iter().enumerate().skip(1) {
        a += c / (x + i as f64);
    }
    0.5 * (2.0 * std::f64::consts::PI).ln() + (x + 0.5) * t.ln() - t + a.ln()
}

fn betacf(a: f64, b: f64, x: f64) -> f64 {
    let tiny = 1e-300;
    let qab = a + b;
    let qap = a + 1.0;
    let qam = a - 1.0;
    let mut c = 1.0;
    let mut d = 1.0 - qab * x / qap;
    if d.abs() < tiny {
        d = tiny;
    }
    d = 1.0 / d;
    let mut h = d;
    for m in 1..2000 {
        let m = m as f64;
        let m2 = 2.0 * m;
        let aa = m * (b - m) * x / ((qam + m2) * (a + m2));
        d = 1.0 + aa * d;
        if d.abs() < tiny {
            d = tiny;
        }
        c = 1.0 + aa / c;
        if c.abs() < tiny {
            c = tiny;
        }
        d = 1.0 / d;
        h *= d * c;
        let aa = -(a + m) * (qab + m) * x / ((a + m2) * (qap + m2));
        d = 1.0 + aa * d;
        if d.abs() < tiny {
            d = tiny;
        }
        c = 1.0 + aa / c;
        if c.abs() < tiny {
            c = tiny;
        }
        d = 1.0 / d;
        let del = d * c;
        h *= del;
        if (del - 1.0).abs() < 1e-16 {
            break;
        }
    }
    h
}

/// regularised incomplete beta I_x(a,b)
pub fn inc_beta(a: f64, b: f64, x: f64) -> f64 {
    if x <= 0.0 {
        return 0.0;
    }
    if x >= 1.0 {
        return 1.0;
    }
    let bt = (ln_gamma(a + b) - ln_gamma(a) - ln_gamma(b) + a * x.ln() + b * (1.0 - x).ln()).exp();
    if x < (a + 1.0) / (a + b + 2.0) {
        bt * betacf(a, b, x) / a
    } else {
        1.0 - bt * betacf(b, a, 1.0 - x) / b
    }
}

/// upper tail P(T > t) for t ≥ 0
fn t_sf(t: f64, nu: f64) -> f64 {
    if t * t < nu {
        // central form avoids the cancellation in 1 - x near the centre
        let x2 = t * t / (nu + t * t);
        0.5 - 0.5 * inc_beta(0.5, 0.5 * nu, x2)
    } else {
        let x = nu / (nu + t * t);
        0.5 * inc_beta(0.5 * nu, 0.5, x)
    }
}

/// P(|T| < t), accurate near 0
fn t_central(t: f64, nu: f64) -> f64 {
    let x2 = t * t / (nu + t * t);
    inc_beta(0.5, 0.5 * nu, x2)
}

/// Student-t quantile t(q; nu) for q in (0,1)
pub fn t_quantile(q: f64, nu: f64) -> f64 {
    if q == 0.5 {
        return 0.0;
    }
    if q < 0.5 {
        return -t_quantile(1.0 - q, nu);
    }
    let tail = 1.0 - q;
    let central = 2.0 * (q - 0.5);
    // whether the current point is still left of the quantile
    let left = |t: f64| -> bool {
        if central < 0.5 {
            t_central(t, nu) < central
        } else {
            t_sf(t, nu) > tail
        }
    };
    // bracket
    let mut lo = 0.0;
    let mut hi = 1.0;
    while left(hi) {
        lo = hi;
        hi *= 2.0;
        if hi > 1e300 {
            return f64::INFINITY;
        }
    }
    for _ in 0..200 {
        let mid = 0.5 * (lo + hi);
        if left(mid) {
            lo = mid;
        } else {
            hi = mid;
        }
        if (hi - lo) <= 1e-15 * hi {
            break;
        }
    }
    0.5 * (lo + hi)
}

pub fn selftest() -> Result<(), String> {
    let mut worst: f64 = 0.0;
    for (nu, q, want) in T_TABLE {
        let got = t_quantile(*q, *nu);
        // q close to 0.5 or 1 amplifies the representation error of q itself
        let rel = ((got - want) / want).abs();
        worst = worst.max(rel);
        if rel > 2e-9 {
            return Err(format!("t_quantile({q},{nu}) = {got}, scipy {want}, rel {rel}"));
        }
    }
    let _ = worst;
    Ok(())
}
