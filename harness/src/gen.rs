//! Workload generators shared by the state-level and fit-level monitors.

use crate::la::Mat;
use crate::problem::{ModelKind, ProblemSpec};
use crate::rng::Rng;
use crate::zoo::*;

#[derive(Clone, Copy, Debug, PartialEq, Eq)]
pub enum WClass {
    None,
    Unit,
    Positive,
    Mixed,
    Zeros,
    Spread,
    /// all weights equal to one constant other than 1
    Constant,
}

impl WClass {
    pub fn random(rng: &mut Rng) -> WClass {
        *rng.pick(&[
            WClass::None,
            WClass::Unit,
            WClass::Positive,
            WClass::Positive,
            WClass::Mixed,
            WClass::Zeros,
            WClass::Spread,
            WClass::Constant,
        ])
    }
    pub fn name(&self) -> &'static str {
        match self {
            WClass::None => "none",
            WClass::Unit => "unit",
            WClass::Positive => "positive",
            WClass::Mixed => "mixed-sign",
            WClass::Zeros => "with-zeros",
            WClass::Spread => "spread",
            WClass::Constant => "constant",
        }
    }
}

/// weights of the given class; `keep` = minimum number of rows that must keep a non-zero weight
pub fn gen_weights(rng: &mut Rng, class: WClass, n: usize, keep: usize) -> Option<Vec<f64>> {
    match class {
        WClass::None => None,
        WClass::Unit => Some(vec![1.0; n]),
        WClass::Positive => Some((0..n).map(|_| rng.range(0.5, 2.0)).collect()),
        WClass::Mixed => Some((0..n).map(|_| rng.sign() * rng.range(0.3, 3.0)).collect()),
        WClass::Zeros => {
            let mut w: Vec<f64> = (0..n).map(|_| rng.range(0.5, 2.0)).collect();
            let max_zero = n.saturating_sub(keep);
            let nz = if max_zero == 0 { 0 } else { rng.int(1, max_zero.min((n / 3).max(1))) };
            let idx = rng.perm(n);
            for i in idx.into_iter().take(nz) {
                w[i] = 0.0;
            }
            Some(w)
        }
        WClass::Constant => {
            let c = *rng.pick(&[0.5, 2.0, -1.0, 3.7, 0.01, -25.0]);
            Some(vec![c; n])
        }
        WClass::Spread => {
            let decades = rng.range(1.0, 3.0);
            Some((0..n).map(|_| rng.sign() * 10f64.powf(rng.range(-decades, decades))).collect())
        }
    }
}

#[derive(Clone, Debug)]
pub struct GenOpts {
    pub nmax: usize,
    pub smax: usize,
    pub noise: f64,
    pub allow_par: bool,
    pub force_s: Option<usize>,
}

impl Default for GenOpts {
    fn default() -> Self {
        GenOpts { nmax: 60, smax: 4, noise: 0.05, allow_par: true, force_s: None }
    }
}

pub struct Generated {
    pub spec: ProblemSpec,
    /// the generating nonlinear parameters
    pub alpha_true: Vec<f64>,
    /// generating coefficients M×S
    pub c_true: Mat,
    pub wclass: WClass,
}

/// A random zoo problem: model, truth, noisy data with columns of different
/// magnitudes, weights of a random class, random flavour.
pub fn gen_problem(rng: &mut Rng, o: &GenOpts) -> Generated {
    let (mspec, alpha_true) = random_zoo(rng, o.nmax);
    gen_problem_for(rng, o, mspec, alpha_true)
}

pub fn gen_problem_for(rng: &mut Rng, o: &GenOpts, mspec: ModelSpec, alpha_true: Vec<f64>) -> Generated {
    let n = mspec.n();
    let m = mspec.m();
    let s = o.force_s.unwrap_or_else(|| if rng.chance(0.5) { 1 } else { rng.int(2, o.smax.max(2)) });
    let phi = mspec.phi64::<f64>(&alpha_true);
    let mut c_true = Mat::zeros(m, s);
    for j in 0..s {
        let mag = 10f64.powf(rng.range(-1.5, 1.5));
        for i in 0..m {
            c_true.set(i, j, mag * rng.sign() * rng.range(0.5, 5.0));
        }
    }
    let mut y = phi.mul(&c_true);
    for j in 0..s {
        let scale = crate::la::norm2(y.col(j)) / (n as f64).sqrt();
        for i in 0..n {
            let v = y.at(i, j) + o.noise * scale * rng.range(-1.0, 1.0);
            y.set(i, j, v);
        }
    }
    let wclass = WClass::random(rng);
    let w = gen_weights(rng, wclass, n, (m + mspec.np + 1).min(n));
    let mrhs = s > 1 || rng.chance(0.3);
    let par = o.allow_par && rng.chance(0.4);
    let model = if rng.chance(0.5) { ModelKind::Built(mspec) } else { ModelKind::Hand(mspec) };
    Generated {
        spec: ProblemSpec { model, alpha0: alpha_true.clone(), y, w, eps: None, mrhs, par },
        alpha_true,
        c_true,
        wclass,
    }
}

/// α away from the truth but inside the region where the zoo functions stay
/// finite and positive-scale parameters stay positive.
pub fn perturb_alpha(rng: &mut Rng, a: &[f64], rel: f64) -> Vec<f64> {
    a.iter().map(|v| v * (1.0 + rel * rng.range(-1.0, 1.0))).collect()
}

pub fn wide_alpha(rng: &mut Rng, a: &[f64]) -> Vec<f64> {
    a.iter().map(|v| v * rng.logrange(0.4, 2.5)).collect()
}

/// hostile IEEE-754 pool
pub fn hostile_f64(rng: &mut Rng) -> f64 {
    const POOL: &[f64] = &[
        0.0,
        -0.0,
        1.0,
        -1.0,
        f64::NAN,
        f64::INFINITY,
        f64::NEG_INFINITY,
        f64::MAX,
        -f64::MAX,
        f64::MIN_POSITIVE,
        5e-324,
        1e300,
        -1e300,
        1e-300,
        1e154,
        1e-154,
        -1e154,
        1e200,
        3.4e38,
        -3.4e38,
        1.2e-38,
        1e-45,
        1e30,
        1e-30,
    ];
    *rng.pick(POOL)
}

/// A rank-deficient-by-construction problem: sum of k >= 2 decays (+ optional
/// offset) in which two decay constants are *exactly* equal at every α of the
/// returned history, with a user-chosen threshold that lies decisively between
/// the kept singular values and the (numerically zero) dropped one.
pub fn gen_rank_deficient(rng: &mut Rng, is_f64: bool, smax: usize, steps: usize) -> (Generated, Vec<Vec<f64>>) {
    let k = rng.int(2, 3);
    let offset = rng.chance(0.5);
    let n = rng.int(k + 3, 30);
    let x = grid_r(rng, n, 0.0, 3.0, 8.0, 0.0);
    let mspec = z1(x, k, offset);
    let base: Vec<f64> = {
        let mut t = rng.range(0.5, 1.2);
        (0..k).map(|_| { let v = t; t *= rng.range(2.5, 4.0); v }).collect()
    };
    let s = if rng.chance(0.4) { 1 } else { rng.int(2, smax.max(2)) };
    let mut g = gen_problem_for(rng, &GenOpts { force_s: Some(s), ..Default::default() }, mspec, base.clone());
    let (i, j) = (0usize, 1usize + rng.below(k - 1));
    let dup = |a: &mut Vec<f64>| { a[j] = a[i]; };
    let mut hist = Vec::new();
    for _ in 0..steps {
        let mut a: Vec<f64> = base.iter().map(|v| v * rng.range(0.7, 1.4)).collect();
        dup(&mut a);
        hist.push(a);
    }
    let mut a0 = base.clone();
    dup(&mut a0);
    g.spec.alpha0 = a0;
    g.spec.eps = Some(if is_f64 { 1e-8 } else { 1e-2 } * rng.sign());
    // weights of moderate spread only, so that the kept part stays well conditioned
    if g.spec.w.is_some() {
        let cls = if rng.chance(0.5) { WClass::Positive } else { WClass::Mixed };
        g.spec.w = gen_weights(rng, cls, n, n);
    }
    (g, hist)
}

/// Next parameter vector of a history: usually `fresh`, but with probability 0.4 only
/// some coordinates move and the others stay bit-identical to `prev` (coordinate-wise
/// steps, parameter scans) — the pattern that exposes stale per-parameter caches.
pub fn next_alpha(rng: &mut Rng, prev: &[f64], fresh: Vec<f64>) -> Vec<f64> {
    if prev.len() != fresh.len() || prev.len() < 2 || !rng.chance(0.4) {
        return fresh;
    }
    let mut out = prev.to_vec();
    let k = rng.below(prev.len());
    out[k] = fresh[k];
    if prev.len() > 2 && rng.chance(0.3) {
        let k2 = rng.below(prev.len());
        out[k2] = fresh[k2];
    }
    out
}

/// History-aware variant: with probability 0.12 return exactly the vector applied before the previous
/// one (the pattern A, B, A - e.g. an optimizer going back after a rejected step)
pub fn next_alpha_hist(rng: &mut Rng, hist: &[Vec<f64>], fresh: Vec<f64>) -> Vec<f64> {
    if hist.len() >= 2 && rng.chance(0.12) {
        return hist[hist.len() - 2].clone();
    }
    match hist.last() {
        Some(prev) => next_alpha(rng, prev, fresh),
        None => fresh,
    }
}
