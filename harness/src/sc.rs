//! Scalar abstraction: the two widths varpro supports, with unambiguous math.

use nalgebra::{ComplexField, DMatrix, DVector, RealField};
use num_traits::{Float, FromPrimitive};
use varpro::statistics::numeric_traits::CastF64;

use crate::la::Mat;

pub trait Sc:
    RealField
    + ComplexField<RealField = Self>
    + Float
    + FromPrimitive
    + CastF64
    + Copy
    + Send
    + Sync
    + std::fmt::Debug
    + std::fmt::Display
    + 'static
{
    const NAME: &'static str;
    const EPS: f64;
    const IS_F64: bool;
    fn of(v: f64) -> Self;
    fn w(self) -> f64;
    fn bits(self) -> u64;
    fn exp_(self) -> Self;
    fn sin_(self) -> Self;
    fn cos_(self) -> Self;
    fn fin(self) -> bool;
}

impl Sc for f64 {
    const NAME: &'static str = "f64";
    const EPS: f64 = f64::EPSILON;
    const IS_F64: bool = true;
    #[inline]
    fn of(v: f64) -> f64 {
        v
    }
    #[inline]
    fn w(self) -> f64 {
        self
    }
    #[inline]
    fn bits(self) -> u64 {
        self.to_bits()
    }
    #[inline]
    fn exp_(self) -> f64 {
        f64::exp(self)
    }
    #[inline]
    fn sin_(self) -> f64 {
        f64::sin(self)
    }
    #[inline]
    fn cos_(self) -> f64 {
        f64::cos(self)
    }
    #[inline]
    fn fin(self) -> bool {
        f64::is_finite(self)
    }
}

impl Sc for f32 {
    const NAME: &'static str = "f32";
    const EPS: f64 = f32::EPSILON as f64;
    const IS_F64: bool = false;
    #[inline]
    fn of(v: f64) -> f32 {
        v as f32
    }
    #[inline]
    fn w(self) -> f64 {
        self as f64
    }
    #[inline]
    fn bits(self) -> u64 {
        self.to_bits() as u64
    }
    #[inline]
    fn exp_(self) -> f32 {
        f32::exp(self)
    }
    #[inline]
    fn sin_(self) -> f32 {
        f32::sin(self)
    }
    #[inline]
    fn cos_(self) -> f32 {
        f32::cos(self)
    }
    #[inline]
    fn fin(self) -> bool {
        f32::is_finite(self)
    }
}

pub fn dvec<T: Sc>(v: &[f64]) -> DVector<T> {
    DVector::from_iterator(v.len(), v.iter().map(|x| T::of(*x)))
}

pub fn dmat<T: Sc>(m: &Mat) -> DMatrix<T> {
    DMatrix::from_iterator(m.r, m.c, m.d.iter().map(|x| T::of(*x)))
}

/// widen any nalgebra matrix (owned or view) to the oracle's representation
pub fn widen<T: Sc, R: nalgebra::Dim, C: nalgebra::Dim, S: nalgebra::RawStorage<T, R, C>>(
    m: &nalgebra::Matrix<T, R, C, S>,
) -> Mat {
    let (r, c) = m.shape();
    Mat::from_fn(r, c, |i, j| m[(i, j)].w())
}

pub fn bits_of<T: Sc, R: nalgebra::Dim, C: nalgebra::Dim, S: nalgebra::RawStorage<T, R, C>>(
    m: &nalgebra::Matrix<T, R, C, S>,
) -> Vec<u64> {
    let (r, c) = m.shape();
    let mut v = Vec::with_capacity(r * c + 2);
    v.push(r as u64);
    v.push(c as u64);
    for j in 0..c {
        for i in 0..r {
            v.push(m[(i, j)].bits());
        }
    }
    v
}

/// round a f64 value through the scalar type
pub fn rt<T: Sc>(v: f64) -> f64 {
    T::of(v).w()
}
