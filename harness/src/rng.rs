//! Own PRNG (xoshiro256** seeded through SplitMix64) so that case streams are
//! identical across toolchains, profiles and under Miri.

#[derive(Clone, Debug)]
pub struct Rng {
    s: [u64; 4],
    spare: Option<f64>,
}

fn splitmix(x: &mut u64) -> u64 {
    *x = x.wrapping_add(0x9E37_79B9_7F4A_7C15);
    let mut z = *x;
    z = (z ^ (z >> 30)).wrapping_mul(0xBF58_476D_1CE4_E5B9);
    z = (z ^ (z >> 27)).wrapping_mul(0x94D0_49BB_1331_11EB);
    z ^ (z >> 31)
}

pub fn fnv(bytes: &[u8]) -> u64 {
    let mut h: u64 = 0xcbf2_9ce4_8422_2325;
    for b in bytes {
        h ^= *b as u64;
        h = h.wrapping_mul(0x1000_0000_01b3);
    }
    h
}

/// order-sensitive hash of a sequence of u64
pub fn hash_u64s<I: IntoIterator<Item = u64>>(it: I) -> u64 {
    let mut h: u64 = 0xcbf2_9ce4_8422_2325;
    for v in it {
        for b in v.to_le_bytes() {
            h ^= b as u64;
            h = h.wrapping_mul(0x1000_0000_01b3);
        }
    }
    h
}

impl Rng {
    pub fn new(seed: u64) -> Self {
        let mut x = seed;
        let s = [
            splitmix(&mut x),
            splitmix(&mut x),
            splitmix(&mut x),
            splitmix(&mut x),
        ];
        Rng { s, spare: None }
    }
    /// stream keyed by (seed, property/stream name, case index)
    pub fn keyed(seed: u64, name: &str, case: u64) -> Self {
        let k = hash_u64s([seed, fnv(name.as_bytes()), case]);
        Rng::new(k)
    }
    pub fn next_u64(&mut self) -> u64 {
        let r = self.s[1].wrapping_mul(5).rotate_left(7).wrapping_mul(9);
        let t = self.s[1] << 17;
        self.s[2] ^= self.s[0];
        self.s[3] ^= self.s[1];
        self.s[1] ^= self.s[2];
        self.s[0] ^= self.s[3];
        self.s[2] ^= t;
        self.s[3] = self.s[3].rotate_left(45);
        r
    }
    /// uniform in [0,1)
    pub fn f(&mut self) -> f64 {
        (self.next_u64() >> 11) as f64 * (1.0 / 9007199254740992.0)
    }
    pub fn range(&mut self, lo: f64, hi: f64) -> f64 {
        lo + (hi - lo) * self.f()
    }
    /// log-uniform in [lo,hi], lo>0
    pub fn logrange(&mut self, lo: f64, hi: f64) -> f64 {
        (self.range(lo.ln(), hi.ln())).exp()
    }
    /// uniform integer in [0,n)
    pub fn below(&mut self, n: usize) -> usize {
        if n == 0 {
            return 0;
        }
        (self.next_u64() % n as u64) as usize
    }
    /// uniform integer in [lo,hi]
    pub fn int(&mut self, lo: usize, hi: usize) -> usize {
        lo + self.below(hi - lo + 1)
    }
    pub fn chance(&mut self, p: f64) -> bool {
        self.f() < p
    }
    pub fn sign(&mut self) -> f64 {
        if self.chance(0.5) {
            1.0
        } else {
            -1.0
        }
    }
    pub fn pick<'a, T>(&mut self, xs: &'a [T]) -> &'a T {
        &xs[self.below(xs.len())]
    }
    /// standard normal (Box-Muller)
    pub fn normal(&mut self) -> f64 {
        if let Some(v) = self.spare.take() {
            return v;
        }
        loop {
            let u1 = self.f();
            let u2 = self.f();
            if u1 <= 1e-300 {
                continue;
            }
            let r = (-2.0 * u1.ln()).sqrt();
            let th = 2.0 * std::f64::consts::PI * u2;
            self.spare = Some(r * th.sin());
            return r * th.cos();
        }
    }
    pub fn shuffle<T>(&mut self, xs: &mut [T]) {
        for i in (1..xs.len()).rev() {
            let j = self.below(i + 1);
            xs.swap(i, j);
        }
    }
    pub fn perm(&mut self, n: usize) -> Vec<usize> {
        let mut p: Vec<usize> = (0..n).collect();
        self.shuffle(&mut p);
        p
    }
}
