//! vpcheck — runtime monitors for geo-ant/varpro (see /verif/DESIGN.md)
#![allow(clippy::needless_range_loop, clippy::too_many_arguments, clippy::type_complexity)]
pub mod gen;
pub mod la;
pub mod oracle;
pub mod problem;
pub mod procmon;
pub mod rng;
pub mod run;
pub mod sc;
pub mod spy;
pub mod t_table;
pub mod tdist;
pub mod zoo;
pub mod props {
    pub mod c01;
    pub mod c08;
    pub mod c09;
    pub mod c12;
}

pub fn selftest() -> Result<(), String> {
    la::selftest()?;
    tdist::selftest()?;
    zoo::selftest()?;
    Ok(())
}
