//! vpcheck — runtime monitors for geo-ant/varpro (see /verif/DESIGN.md)
#![allow(clippy::needless_range_loop, clippy::too_many_arguments, clippy::type_complexity)]
pub mod arity;
pub mod coded;
pub mod gen;
pub mod la;
pub mod oracle;
pub mod poison;
pub mod problem;
pub mod procmon;
pub mod rng;
pub mod run;
pub mod sc;
pub mod spy;
pub mod statfit;
pub mod t_table;
pub mod tdist;
pub mod twin;
pub mod zoo;
pub mod props {
    pub mod c01;
    pub mod c02;
    pub mod c03;
    pub mod c04;
    pub mod c05;
    pub mod c06;
    pub mod c07;
    pub mod c08;
    pub mod c09;
    pub mod c10;
    pub mod c11;
    pub mod c12;
    pub mod c13;
    pub mod c14;
    pub mod c15;
    pub mod c16;
    pub mod c17;
    pub mod c18;
    pub mod c19;
}

pub fn selftest() -> Result<(), String> {
    la::selftest()?;
    tdist::selftest()?;
    zoo::selftest()?;
    Ok(())
}

/// workloads for the sanitizer engines, selected by property id
pub fn sanitizer_workload(prop: &str, seed: u64, cases: u64, nmax: usize, len: usize) -> (u64, u64) {
    match prop {
        "C10" => props::c10::sanitizer_workload(seed, cases, nmax, len),
        "C11" => props::c11::sanitizer_workload(seed, cases, nmax, len),
        "C16" => props::c16::sanitizer_workload(seed, cases, nmax, len),
        "C17" => props::c17::sanitizer_workload(seed, cases, nmax, len),
        _ => panic!("no sanitizer workload for {prop}"),
    }
}
