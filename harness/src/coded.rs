//! Position-coded builder-made models (Z7/Z8): every function and derivative
//! is an asymmetric function of its arguments, so that any transposition or
//! mis-routing changes the value; closures can be told to return a vector of
//! the wrong length (C17).

use crate::arity::*;
use crate::rng::Rng;
use crate::sc::Sc;
use nalgebra::DVector;
use std::sync::atomic::{AtomicBool, AtomicI64, AtomicUsize, Ordering::SeqCst};
use std::sync::Arc;
use varpro::model::SeparableModel;
use varpro::prelude::*;

#[derive(Clone, Debug)]
pub struct CodedFn {
    /// names of the model parameters this function takes, in its own order (empty: invariant)
    pub params: Vec<String>,
    /// order in which the derivatives are supplied (indices into `params`)
    pub deriv_order: Vec<usize>,
}

#[derive(Clone, Debug)]
pub struct CodedSpec {
    pub names: Vec<String>,
    pub funcs: Vec<CodedFn>,
    pub x: Vec<f64>,
}

pub struct Misbehave {
    /// id of the closure that returns a wrong length (-1: none); id = j*16 + (0: value, 1+q: derivative q)
    pub target: AtomicI64,
    pub len: AtomicUsize,
    pub hit: AtomicBool,
    /// a second closure that misbehaves during the same evaluation (-1: none), with its own length
    pub target2: AtomicI64,
    pub len2: AtomicUsize,
    /// >= 0: EVERY value closure (functions and invariant functions) returns a vector of this length
    pub all_values: AtomicI64,
}

impl Misbehave {
    pub fn new() -> Arc<Misbehave> {
        Arc::new(Misbehave { target: AtomicI64::new(-1), len: AtomicUsize::new(0), hit: AtomicBool::new(false), target2: AtomicI64::new(-1), len2: AtomicUsize::new(0), all_values: AtomicI64::new(-1) })
    }
}

/// the x-dependence of function j: its own frequency and phase, so that the columns of different
/// functions are linearly independent functions of x
fn xj<T: Sc>(j: usize, x: T) -> T {
    x * T::of(1.0 + 0.37 * j as f64) + T::of(j as f64)
}

/// value of function j at (x, args): Σ_i (i+2)·sin((i+1)·a_i·(1+x/4) + x_j)   (cos(x_j) for invariant functions)
pub fn code_value<T: Sc>(j: usize, x: T, a: &[T]) -> T {
    if a.is_empty() {
        return xj::<T>(j, x).cos_();
    }
    let mut s = T::of(0.0);
    for (i, ai) in a.iter().enumerate() {
        s += T::of((i + 2) as f64) * (T::of((i + 1) as f64) * *ai * (T::of(1.0) + x * T::of(0.25)) + xj::<T>(j, x)).sin_();
    }
    s
}

/// "derivative" closure of function j with respect to its q-th own argument (a code, not a true derivative)
pub fn code_deriv<T: Sc>(j: usize, q: usize, x: T, a: &[T]) -> T {
    let mut s = T::of((q + 2) as f64) * T::of((q + 1) as f64) * (T::of((q + 1) as f64) * a[q] * (T::of(1.0) + x * T::of(0.25)) + xj::<T>(j, x)).cos_();
    for (i, ai) in a.iter().enumerate() {
        s += T::of(0.001 * (i + 1) as f64) * *ai;
    }
    s
}

fn closure<T: Sc>(id: i64, mb: Arc<Misbehave>, f: impl Fn(T, &[T]) -> T + Send + Sync + 'static) -> SliceFn<T> {
    Arc::new(move |x: &DVector<T>, a: &[T]| {
        if mb.target.load(SeqCst) == id {
            mb.hit.store(true, SeqCst);
            let n = mb.len.load(SeqCst);
            return DVector::from_element(n, T::of(1.0));
        }
        if mb.target2.load(SeqCst) == id {
            return DVector::from_element(mb.len2.load(SeqCst), T::of(1.0));
        }
        if id % 16 == 0 && mb.all_values.load(SeqCst) >= 0 {
            mb.hit.store(true, SeqCst);
            return DVector::from_element(mb.all_values.load(SeqCst) as usize, T::of(1.0));
        }
        x.map(|xi| f(xi, a))
    })
}

pub fn build_coded<T: Sc>(spec: &CodedSpec, alpha0: &[f64], mb: &Arc<Misbehave>) -> Result<SeparableModel<T>, String> {
    build_coded_opts(spec, alpha0, mb, false)
}

/// `guess_first`: the initial parameters are supplied directly after the last function/derivative call
/// (while the builder is still building that function) instead of at the end
pub fn build_coded_opts<T: Sc>(spec: &CodedSpec, alpha0: &[f64], mb: &Arc<Misbehave>, guess_first: bool) -> Result<SeparableModel<T>, String> {
    let mut b = SeparableModelBuilder::<T>::new(spec.names.clone());
    if (spec.x.len() + spec.names.len()) % 3 == 0 {
        // a decoy grid first: the independent variable supplied last is the one that counts
        b = b.independent_variable(crate::sc::dvec::<T>(&spec.x.iter().map(|v| 0.5 * v + 1.25).collect::<Vec<f64>>()));
    }
    for (j, f) in spec.funcs.iter().enumerate() {
        if f.params.is_empty() {
            let mbc = mb.clone();
            let id = (j * 16) as i64;
            b = b.invariant_function(move |x: &DVector<T>| {
                if mbc.target.load(SeqCst) == id {
                    mbc.hit.store(true, SeqCst);
                    return DVector::from_element(mbc.len.load(SeqCst), T::of(1.0));
                }
                if mbc.target2.load(SeqCst) == id {
                    return DVector::from_element(mbc.len2.load(SeqCst), T::of(1.0));
                }
                if mbc.all_values.load(SeqCst) >= 0 {
                    mbc.hit.store(true, SeqCst);
                    return DVector::from_element(mbc.all_values.load(SeqCst) as usize, T::of(1.0));
                }
                x.map(|xi| code_value::<T>(j, xi, &[]))
            });
        } else {
            let k = f.params.len();
            b = add_function(b, f.params.clone(), k, closure::<T>((j * 16) as i64, mb.clone(), move |x, a| code_value::<T>(j, x, a)));
            for &q in &f.deriv_order {
                b = add_deriv(b, f.params[q].clone(), k, closure::<T>((j * 16 + 1 + q) as i64, mb.clone(), move |x, a| code_deriv::<T>(j, q, x, a)));
            }
        }
    }
    if guess_first {
        return b
            .initial_parameters(alpha0.iter().map(|v| T::of(*v)).collect())
            .independent_variable(crate::sc::dvec::<T>(&spec.x))
            .build()
            .map_err(|e| format!("{e:?}"));
    }
    b.independent_variable(crate::sc::dvec::<T>(&spec.x))
        .initial_parameters(alpha0.iter().map(|v| T::of(*v)).collect())
        .build()
        .map_err(|e| format!("{e:?}"))
}

pub fn random_coded(rng: &mut Rng, max_params: usize, max_n: usize) -> CodedSpec {
    const POOL: [&str; 12] = ["tau", "omega", "mu", "sigma", "k1", "k2", "phi", "rho", "zeta", "nu", "xi", "chi"];
    let np = rng.int(1, max_params.min(10));
    let mut names: Vec<String> = POOL.iter().map(|s| s.to_string()).collect();
    rng.shuffle(&mut names);
    names.truncate(np);
    let mut funcs: Vec<CodedFn> = Vec::new();
    let nf = rng.int(1, 5);
    let mut covered = std::collections::BTreeSet::new();
    for fi in 0..nf {
        let mut sub = names.clone();
        rng.shuffle(&mut sub);
        sub.truncate(rng.int(1, np));
        if fi == nf - 1 {
            for n in &names {
                if !covered.contains(n) && !sub.contains(n) {
                    sub.push(n.clone());
                }
            }
        }
        for n in &sub {
            covered.insert(n.clone());
        }
        let order = rng.perm(sub.len());
        funcs.push(CodedFn { params: sub, deriv_order: order });
    }
    // invariant functions at random positions
    for _ in 0..rng.int(0, 2) {
        let pos = rng.below(funcs.len() + 1);
        funcs.insert(pos, CodedFn { params: vec![], deriv_order: vec![] });
    }
    let n = rng.int(1, max_n);
    let x: Vec<f64> = (0..n).map(|i| 0.37 * i as f64 + rng.range(0.0, 0.1)).collect();
    CodedSpec { names, funcs, x }
}

/// a specification with many model parameters (sizes around the word sizes 32/64/128/256 that a
/// bit set or a small index type could depend on): every parameter is used by at least one function
pub fn random_coded_wide(rng: &mut Rng, max_n: usize) -> CodedSpec {
    const POOL: [&str; 12] = ["tau", "omega", "mu", "sigma", "k", "q", "phi", "rho", "zeta", "nu", "xi", "chi"];
    const SIZES: [usize; 20] = [11, 17, 31, 32, 33, 48, 63, 64, 65, 66, 70, 100, 127, 128, 129, 130, 200, 255, 256, 257];
    let np = *rng.pick(&SIZES);
    let mut names: Vec<String> = (0..np).map(|i| format!("{}{}", POOL[i % 12], i)).collect();
    rng.shuffle(&mut names);
    let mut funcs: Vec<CodedFn> = Vec::new();
    let mut rest = names.clone();
    rng.shuffle(&mut rest);
    while !rest.is_empty() {
        let k = rng.int(1, 14).min(rest.len());
        let mut sub: Vec<String> = rest.drain(..k).collect();
        // sometimes share a parameter that belongs to another function as well
        if sub.len() < 14 && rng.chance(0.3) {
            let extra = rng.pick(&names).clone();
            if !sub.contains(&extra) {
                let at = rng.below(sub.len() + 1);
                sub.insert(at, extra);
            }
        }
        let order = rng.perm(sub.len());
        funcs.push(CodedFn { params: sub, deriv_order: order });
    }
    for _ in 0..rng.int(0, 2) {
        let pos = rng.below(funcs.len() + 1);
        funcs.insert(pos, CodedFn { params: vec![], deriv_order: vec![] });
    }
    let n = rng.int(1, max_n);
    let x: Vec<f64> = (0..n).map(|i| 0.37 * i as f64 + rng.range(0.0, 0.1)).collect();
    CodedSpec { names, funcs, x }
}

/// a small model with one function of more than ten parameters (a user type implementing the
/// `BasisFunction` trait) next to ordinary closures
pub fn random_coded_custom_arity(rng: &mut Rng) -> CodedSpec {
    let np = rng.int(11, 15);
    let mut names: Vec<String> = (0..np).map(|i| format!("q{i}")).collect();
    rng.shuffle(&mut names);
    let mut big = names.clone();
    rng.shuffle(&mut big);
    big.truncate(rng.int(11, np.min(14)));
    let mut funcs = vec![CodedFn { deriv_order: rng.perm(big.len()), params: big.clone() }];
    // the remaining parameters, and a few shared ones, in small closures
    let mut rest: Vec<String> = names.iter().filter(|n| !big.contains(n)).cloned().collect();
    rest.push(rng.pick(&names).clone());
    rest.dedup();
    for chunk in rest.chunks(2) {
        let mut sub = chunk.to_vec();
        sub.dedup();
        funcs.push(CodedFn { deriv_order: rng.perm(sub.len()), params: sub });
    }
    if rng.chance(0.5) {
        funcs.insert(rng.below(funcs.len() + 1), CodedFn { params: vec![], deriv_order: vec![] });
    }
    rng.shuffle(&mut funcs);
    let n = funcs.len() + np + rng.int(2, 6);
    let x: Vec<f64> = (0..n).map(|i| 0.37 * i as f64 + rng.range(0.0, 0.1)).collect();
    CodedSpec { names, funcs, x }
}

/// the oracle's routing: arguments of function j taken from α by *name*
pub fn route<T: Sc>(spec: &CodedSpec, j: usize, alpha: &[T]) -> Vec<T> {
    spec.funcs[j]
        .params
        .iter()
        .map(|n| alpha[spec.names.iter().position(|m| m == n).expect("name in model")])
        .collect()
}
