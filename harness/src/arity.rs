//! Arity-generic access to varpro's `SeparableModelBuilder::function` /
//! `partial_deriv`, which take closures with 1..10 scalar arguments; arities 11..14 go through a user type that implements the `BasisFunction` trait itself.

use crate::sc::Sc;
use nalgebra::DVector;
use std::sync::Arc;
use varpro::prelude::*;

/// slice-style function: (x, arguments in the function's own order) -> values
pub type SliceFn<T> = Arc<dyn Fn(&DVector<T>, &[T]) -> DVector<T> + Send + Sync>;

/// a user type implementing varpro's public `BasisFunction` trait directly, with an argument count
/// given by a const generic - this is how a user gets functions of more than ten parameters
pub struct SliceBasis<T: Sc, const K: usize>(pub SliceFn<T>);
/// marker for the `ArgList` type parameter of the trait
pub struct Args<const K: usize>;

impl<T: Sc, const K: usize> BasisFunction<T, Args<K>> for SliceBasis<T, K> {
    fn eval(&self, x: &DVector<T>, params: &[T]) -> DVector<T> {
        (self.0)(x, &params[..K])
    }
    const ARGUMENT_COUNT: usize = K;
}

pub fn add_function<T: Sc>(b: SeparableModelBuilder<T>, params: Vec<String>, arity: usize, f: SliceFn<T>) -> SeparableModelBuilder<T> {
    match arity {
        1 => b.function(params, move |x: &DVector<T>, a0: T| f(x, &[a0])),
        2 => b.function(params, move |x: &DVector<T>, a0: T, a1: T| f(x, &[a0, a1])),
        3 => b.function(params, move |x: &DVector<T>, a0: T, a1: T, a2: T| f(x, &[a0, a1, a2])),
        4 => b.function(params, move |x: &DVector<T>, a0: T, a1: T, a2: T, a3: T| f(x, &[a0, a1, a2, a3])),
        5 => b.function(params, move |x: &DVector<T>, a0: T, a1: T, a2: T, a3: T, a4: T| f(x, &[a0, a1, a2, a3, a4])),
        6 => b.function(params, move |x: &DVector<T>, a0: T, a1: T, a2: T, a3: T, a4: T, a5: T| f(x, &[a0, a1, a2, a3, a4, a5])),
        7 => b.function(params, move |x: &DVector<T>, a0: T, a1: T, a2: T, a3: T, a4: T, a5: T, a6: T| f(x, &[a0, a1, a2, a3, a4, a5, a6])),
        8 => b.function(params, move |x: &DVector<T>, a0: T, a1: T, a2: T, a3: T, a4: T, a5: T, a6: T, a7: T| f(x, &[a0, a1, a2, a3, a4, a5, a6, a7])),
        9 => b.function(params, move |x: &DVector<T>, a0: T, a1: T, a2: T, a3: T, a4: T, a5: T, a6: T, a7: T, a8: T| f(x, &[a0, a1, a2, a3, a4, a5, a6, a7, a8])),
        10 => b.function(params, move |x: &DVector<T>, a0: T, a1: T, a2: T, a3: T, a4: T, a5: T, a6: T, a7: T, a8: T, a9: T| f(x, &[a0, a1, a2, a3, a4, a5, a6, a7, a8, a9])),
        11 => b.function(params, SliceBasis::<T, 11>(f)),
        12 => b.function(params, SliceBasis::<T, 12>(f)),
        13 => b.function(params, SliceBasis::<T, 13>(f)),
        14 => b.function(params, SliceBasis::<T, 14>(f)),
        _ => panic!("arity {arity} not supported by the harness (1..14)"),
    }
}

pub fn add_deriv<T: Sc>(b: SeparableModelBuilder<T>, name: String, arity: usize, f: SliceFn<T>) -> SeparableModelBuilder<T> {
    match arity {
        1 => b.partial_deriv(name, move |x: &DVector<T>, a0: T| f(x, &[a0])),
        2 => b.partial_deriv(name, move |x: &DVector<T>, a0: T, a1: T| f(x, &[a0, a1])),
        3 => b.partial_deriv(name, move |x: &DVector<T>, a0: T, a1: T, a2: T| f(x, &[a0, a1, a2])),
        4 => b.partial_deriv(name, move |x: &DVector<T>, a0: T, a1: T, a2: T, a3: T| f(x, &[a0, a1, a2, a3])),
        5 => b.partial_deriv(name, move |x: &DVector<T>, a0: T, a1: T, a2: T, a3: T, a4: T| f(x, &[a0, a1, a2, a3, a4])),
        6 => b.partial_deriv(name, move |x: &DVector<T>, a0: T, a1: T, a2: T, a3: T, a4: T, a5: T| f(x, &[a0, a1, a2, a3, a4, a5])),
        7 => b.partial_deriv(name, move |x: &DVector<T>, a0: T, a1: T, a2: T, a3: T, a4: T, a5: T, a6: T| f(x, &[a0, a1, a2, a3, a4, a5, a6])),
        8 => b.partial_deriv(name, move |x: &DVector<T>, a0: T, a1: T, a2: T, a3: T, a4: T, a5: T, a6: T, a7: T| f(x, &[a0, a1, a2, a3, a4, a5, a6, a7])),
        9 => b.partial_deriv(name, move |x: &DVector<T>, a0: T, a1: T, a2: T, a3: T, a4: T, a5: T, a6: T, a7: T, a8: T| f(x, &[a0, a1, a2, a3, a4, a5, a6, a7, a8])),
        10 => b.partial_deriv(name, move |x: &DVector<T>, a0: T, a1: T, a2: T, a3: T, a4: T, a5: T, a6: T, a7: T, a8: T, a9: T| f(x, &[a0, a1, a2, a3, a4, a5, a6, a7, a8, a9])),
        11 => b.partial_deriv(name, SliceBasis::<T, 11>(f)),
        12 => b.partial_deriv(name, SliceBasis::<T, 12>(f)),
        13 => b.partial_deriv(name, SliceBasis::<T, 13>(f)),
        14 => b.partial_deriv(name, SliceBasis::<T, 14>(f)),
        _ => panic!("arity {arity} not supported by the harness (1..14)"),
    }
}
