//! C05 — fitting converges to a least-squares minimiser on identifiable problems
//! (certified families only; thresholds fixed in DESIGN §5/C05, not tuned at run time)

use crate::la::{self, Mat};
use crate::oracle::*;
use crate::problem::*;
use crate::rng::Rng;
use crate::run::*;
use crate::sc::{widen, Sc};
use crate::spy::SpyCtl;
use crate::zoo::*;

use serde_json::json;

/// F1: 2–3 decays with tau ratios in [3,6] (+ optional offset); F2: Gaussian peak + decay + offset; F3: single decay + offset
pub fn family(rng: &mut Rng) -> (ModelSpec, Vec<f64>, &'static str) {
    match rng.below(3) {
        0 => {
            let k = rng.int(2, 3);
            let mut taus = vec![rng.range(0.5, 2.0)];
            for i in 1..k {
                let t = taus[i - 1] * rng.range(3.0, 6.0);
                taus.push(t);
            }
            // identifiable means in particular that the fastest decay is resolved by the grid:
            // spacing <= tau_1/2 (at least four samples within two decay lengths)
            let n_min = (8.0 * taus[k - 1] / taus[0]).ceil() as usize + 1;
            let n = rng.int(n_min.max(24), n_min.max(200));
            let x = grid(rng, n, 0.0, 4.0 * taus[k - 1], false);
            (z1(x, k, rng.chance(0.5)), taus, "F1 well-separated decays")
        }
        1 => {
            let n = rng.int(30, 200);
            let hi = rng.range(6.0, 12.0);
            let x = grid(rng, n, 0.0, hi, false);
            let a = vec![rng.range(1.0, 3.0), rng.range(0.35 * hi, 0.65 * hi), rng.range(0.05 * hi, 0.2 * hi)];
            (z3(x), a, "F2 Gaussian peak + decay + offset")
        }
        _ => {
            let n = rng.int(24, 200);
            let tau = rng.range(0.5, 2.0);
            let x = grid(rng, n, 0.0, 4.0 * tau, false);
            (z1(x, 1, true), vec![tau], "F3 single decay + offset")
        }
    }
}

fn fit_case<T: Sc>(rng: &mut Rng, case: u64, out: &mut CaseOut) {
    let stream = "families";
    let (mspec, alpha_true, fam) = family(rng);
    let n = mspec.n();
    let m = mspec.m();
    // one case in forty is a global fit over many right-hand sides
    let s = if case % 40 == 17 { rng.int(56, 100) } else { *rng.pick(&[1usize, 1, 2, 5]) };
    let noiseless = rng.chance(0.5);
    // coefficients |c_j| in [0.5,5]
    // with several right-hand sides every second instance has members of different magnitude
    // (coefficients of a column all near 0.5 or all near 5, still inside the family's range)
    let banded = s > 1 && rng.chance(0.5);
    let band: Vec<bool> = (0..s).map(|j| j % 2 == 0).collect();
    let c_true = Mat::from_fn(m, s, |_, j| rng.sign() * if !banded { rng.range(0.5, 5.0) } else if band[j] { rng.range(0.5, 0.7) } else { rng.range(3.5, 5.0) });
    let phi = mspec.phi64::<f64>(&alpha_true);
    let mut y = phi.mul(&c_true);
    let amp = if noiseless { 0.0 } else { 1e-3 };
    for j in 0..s {
        let sig = y.col(j).iter().fold(0.0f64, |mx, v| mx.max(v.abs()));
        for i in 0..n {
            let v = y.at(i, j) + amp * sig * rng.range(-1.0, 1.0);
            y.set(i, j, v);
        }
    }
    let w = if rng.chance(0.5) { None } else { Some((0..n).map(|_| rng.range(0.5, 2.0)).collect::<Vec<f64>>()) };
    let alpha0: Vec<f64> = alpha_true.iter().map(|a| a * (1.0 + 0.05 * rng.range(-1.0, 1.0))).collect();
    let model = if rng.chance(0.5) { ModelKind::Built(mspec) } else { ModelKind::Hand(mspec) };
    let spec = ProblemSpec { model, alpha0, y, w, eps: None, mrhs: s > 1 || rng.chance(0.2), par: rng.chance(0.3) };
    // "identifiable" made operational: the model-function Jacobian [Phi | D_k c] at the generating
    // parameters must be well conditioned after column scaling (kappa(H) <= 1e3) for every right-hand side
    for col in 0..s {
        let cc = Mat::from_cols(m, 1, c_true.col(col).to_vec());
        let (_j, h) = crate::statfit::oracle_jacobians::<f64>(&spec, &alpha_true, &cc);
        match crate::statfit::scaled_normal_matrix(&h) {
            Some((_, _, kappa2)) if kappa2 <= 1e6 => {}
            _ => {
                out.inconcl("instance not identifiable (scaled condition number of the model Jacobian at the truth above 1e3)");
                return;
            }
        }
    }
    judge_instance::<T>(out, stream, case, &spec, &alpha_true, fam, noiseless);
}

/// fit one instance of a certified family and decide it
pub fn judge_instance<T: Sc>(out: &mut CaseOut, stream: &str, case: u64, spec: &ProblemSpec, alpha_true: &[f64], fam: &str, noiseless: bool) {
    let spec = spec.clone();
    let alpha_true = alpha_true.to_vec();
    let n = spec.y.r;
    let s = spec.y.c;
    out.seen("families", fam);
    out.seen("scalar", T::NAME);
    let Ok(prob) = build_problem_auto::<T>(&spec) else {
        violation(out, stream, case, "valid problem rejected", spec.to_json());
        return;
    };
    let lm = LmCfg::default_cfg().make::<T>();
    // spied twin gives the trajectory for the KF-1 triage; the real fit gives the verdict
    let fit = prob.fit(&lm);
    out.evals += 1;
    out.nontrivial.push(spec.hash());
    let mut problems: Vec<String> = Vec::new();
    let alpha_hat: Vec<f64> = fit.nonlinear_parameters().iter().map(|v| v.w()).collect();
    if !fit.is_ok() {
        problems.push(format!("fit failed with {}", fit.termination()));
    } else {
        let yw = widen(&fit.weighted_data());
        let (Some(bf), Some(r), Some(j)) = (fit.best_fit(), fit.problem_residuals(), fit.problem_jacobian()) else {
            violation(out, stream, case, "successful fit without best_fit/residuals/jacobian", spec.to_json());
            return;
        };
        // the property speaks about THE weighted sum of squares and THE Jacobian of the residuals: both are
        // recomputed by the oracle from the supplied data and the reported alpha^, C^ (what the library
        // reports as residuals and Jacobian is judged by C02/C03; a consistent rescaling of both would
        // hide a different objective from a check that only used them)
        let _ = (r, j);
        let vh = View::new::<T>(&spec, &alpha_hat);
        let Some(chat) = fit.coeffs().map(|c| widen(&c)) else {
            violation(out, stream, case, "successful fit without coefficients", spec.to_json());
            return;
        };
        let yw_o = spec.y64::<T>().row_scale(&spec.w64::<T>());
        let r_o = yw_o.sub(&vh.phi_w.mul(&chat));
        let r: Vec<f64> = r_o.d.clone();
        let ssq = la::dot(&r, &r);
        let j = {
            let (q, _) = la::qr(&vh.phi_w);
            let np = spec.model.np();
            let mut jm = Mat::zeros(n * s, np);
            for k in 0..np {
                let b = spec.model.dphi64::<T>(&alpha_hat, k).row_scale(&vh.w).mul(&chat);
                let proj = q.mul(&q.tmul(&b));
                for sx in 0..s {
                    for i in 0..n {
                        jm.set(sx * n + i, k, proj.at(i, sx) - b.at(i, sx));
                    }
                }
            }
            jm
        };
        // SSQ at the generating parameters with optimal coefficients (oracle's QR)
        let vt = View::new::<T>(&spec, &alpha_true);
        let cstar = la::qr_solve(&vt.phi_w, &yw);
        let rstar = yw.sub(&vt.phi_w.mul(&cstar));
        let ssq_star = la::dot(&rstar.d, &rstar.d);
        let ynorm2 = la::dot(&yw.d, &yw.d);
        if noiseless {
            let bf = widen(&bf);
            let ymax = spec.y.max_abs();
            let mut worst: f64 = 0.0;
            for jx in 0..s {
                for i in 0..n {
                    worst = worst.max((bf.at(i, jx) - crate::sc::rt::<T>(spec.y.at(i, jx))).abs());
                }
            }
            let tol = if T::IS_F64 { 1e-10 } else { 1e-3 } * ymax;
            out.ratio("noiseless_reproduction", worst / tol);
            if worst > tol {
                problems.push(format!("noiseless observations reproduced only to {worst:e} (tolerance {tol:e})"));
            }
        } else {
            // sum of squares never exceeds that of the generating parameters
            let slack = if T::IS_F64 { 1e-9 } else { 1e-3 };
            out.ratio("ssq_vs_generating_parameters", ssq / (ssq_star * (1.0 + slack) + 64.0 * T::EPS * ynorm2).max(f64::MIN_POSITIVE));
            if ssq > ssq_star * (1.0 + slack) + 64.0 * T::EPS * ynorm2 {
                problems.push(format!("weighted sum of squares {ssq:e} exceeds that of the generating parameters {ssq_star:e}"));
            }
            // residual orthogonal to every Jacobian column
            let jm = j;
            let rn = la::norm2(&r);
            let mut worst: f64 = 0.0;
            for k in 0..jm.c {
                let jn = la::norm2(jm.col(k));
                if jn > 0.0 && rn > 0.0 {
                    worst = worst.max((la::dot(jm.col(k), &r) / (jn * rn)).abs());
                }
            }
            let tol = if T::IS_F64 { 1e-4 } else { 5e-2 };
            out.ratio("gradient_cosine", worst / tol);
            if worst > tol {
                problems.push(format!("residual is not orthogonal to the Jacobian at the returned point: |cos| = {worst:e}"));
            }
        }
    }
    if problems.is_empty() {
        out.count("converged_instances");
        if case < 16 {
            out.sample(json!({"family": fam, "alpha_true": alpha_true, "alpha_hat": alpha_hat, "S": s, "noiseless": noiseless, "N": n, "termination": fit.termination()}));
        }
        return;
    }
    // KF-2: the optimizer (MINPACK defaults, step bound 100) can accept a first step that jumps across
    // the pole tau = 0 of a decay constant and then runs off to tau -> -infinity (a collinear basis)
    if let Some(ms) = spec.model.spec() {
        let escaped = ms.basis.iter().any(|b| match b {
            Basis::Exp(k) => alpha_hat[*k] * alpha_true[*k] < 0.0,
            _ => false,
        });
        if escaped {
            out.known.push(KnownHit {
                stream: stream.into(),
                case,
                signature: "KF-2:decay-constant-crossed-its-pole".into(),
                what: format!("{} — a decay constant changed sign during the fit (alpha*={alpha_true:?}, alpha^={alpha_hat:?})", problems.join("; ")),
                detail: json!({"problem": spec.to_json(), "alpha_true": alpha_true, "alpha_hat": alpha_hat}),
            });
            return;
        }
    }
    // KF-3: same optimizer behaviour (huge first steps under the MINPACK step bound of 100), other end state:
    // the iteration settles at a stationary point where two decay constants coincide although the
    // generating ones are well separated (the fit of k decays degenerates into one of k-1)
    if let Some(ms) = spec.model.spec() {
        let decays: Vec<usize> = ms.basis.iter().filter_map(|b| if let Basis::Exp(k) = b { Some(*k) } else { None }).collect();
        let collapsed = decays.iter().enumerate().any(|(i, &a)| {
            decays.iter().skip(i + 1).any(|&b| {
                let (x, y) = (alpha_hat[a], alpha_hat[b]);
                let (tx, ty) = (alpha_true[a], alpha_true[b]);
                x.is_finite() && y.is_finite() && x * y > 0.0 && (x - y).abs() <= 1e-3 * x.abs().max(y.abs()) && (tx / ty).max(ty / tx) >= 1.5
            })
        });
        if collapsed {
            out.known.push(KnownHit {
                stream: stream.into(),
                case,
                signature: "KF-3:two-decay-constants-collapsed".into(),
                what: format!("{} — two decay constants coincide at the returned point (alpha*={alpha_true:?}, alpha^={alpha_hat:?})", problems.join("; ")),
                detail: json!({"problem": spec.to_json(), "alpha_true": alpha_true, "alpha_hat": alpha_hat}),
            });
            return;
        }
    }
    // triage: was the dependency's SVD inaccurate at the returned point or anywhere on the trajectory?
    let Ok(twin) = build_problem::<T>(&spec, &SpyCtl::new()) else { return };
    let (_p, _rep, steps) = minimize_spied(&lm, twin);
    let mut worst_e: f64 = 0.0;
    for st in &steps {
        let a: Vec<f64> = st.params_after.iter().map(|v| v.w()).collect();
        if std::env::var("VERIF_TRACE").is_ok() {
            eprintln!("trace: alpha={a:?} |r|={:?}", st.resid.first().and_then(|r| r.as_ref()).map(|r| r.iter().map(|v| v.w() * v.w()).sum::<f64>().sqrt()));
        }
        match dependency_svd_error_at::<T>(&spec, &a) {
            Some(e) => worst_e = worst_e.max(e),
            None => worst_e = f64::INFINITY,
        }
    }
    if worst_e > KF1_MIN_E * T::EPS {
        out.known.push(KnownHit {
            stream: stream.into(),
            case,
            signature: "KF-1:svd-reconstruction-error".into(),
            what: format!("{} — the dependency's SVD was inaccurate on the trajectory (worst e={worst_e:.3e}, {:.0} eps)", problems.join("; "), worst_e / T::EPS),
            detail: json!({"problem": spec.to_json(), "alpha_hat": alpha_hat, "e": worst_e}),
        });
        return;
    }
    violation(out, stream, case, format!("{} ({fam}, alpha*={alpha_true:?}, alpha^={alpha_hat:?}, decomposition accurate on the whole trajectory: worst e={worst_e:.2e})", problems.join("; ")),
        json!({"problem": spec.to_json(), "alpha_true": alpha_true, "alpha_hat": alpha_hat, "termination": fit.termination()}));
}

/// committed witnesses of the known findings KF-2 and KF-3 (independent of VERIF_SEED)
fn witness_case(_rng: &mut Rng, case: u64, out: &mut CaseOut) {
    let path = format!("{}/witnesses/C05-{}.json", VERIF_DIR, ["KF2-a", "KF2-b", "KF3-a"][case as usize % 3]);
    let Ok(body) = std::fs::read_to_string(&path) else { return };
    let Ok(j) = serde_json::from_str::<serde_json::Value>(&body) else { return };
    let Some(spec) = ProblemSpec::from_json(&j["problem"]) else { return };
    let alpha_true: Vec<f64> = j["alpha_true"].as_array().map(|a| a.iter().filter_map(|x| x.as_f64()).collect()).unwrap_or_default();
    let noiseless = j["noiseless"].as_bool().unwrap_or(false);
    if j["scalar"] == "f32" {
        judge_instance::<f32>(out, "kf2-witnesses", case, &spec, &alpha_true, "committed witness", noiseless);
    } else {
        judge_instance::<f64>(out, "kf2-witnesses", case, &spec, &alpha_true, "committed witness", noiseless);
    }
}

pub fn run(ctx: &Ctx) {
    ctx.run_cases("kf2-witnesses", 3, 30.0, witness_case);
    ctx.rule("certified families only: F1 two/three decays with tau ratios in [3,6], tau_1 in [0.5,2], x on [0,4·tau_max], N in [24,200], optional offset; F2 Gaussian peak (centre mid-range, width 5..20% of the range) + decay + offset; F3 single decay + offset; |c_j| in [0.5,5]; starts within 5% of the generating parameters; noise none or bounded uniform <= 1e-3 of the signal; weights none or in [0.5,2]; 1, 2 or 5 right-hand sides; builder-made and hand-written; f32/f64; sequential/parallel; default solver. Verdict: Ok; noiseless data reproduced to 1e-10·max|y| (1e-3 for f32); weighted SSQ <= SSQ at the generating parameters (rel 1e-9); |cos(J_k, r)| <= 1e-4 for noisy data. distinct = problem hash; every instance non-trivial");
    ctx.assume("the claim is limited to these families and ranges; it says nothing about global convergence");
    ctx.assume("a failing instance is attributed to KF-1 only if the dependency's SVD reconstruction error exceeded 16 eps somewhere on the optimizer's trajectory");
    let t = ctx.tier;
    ctx.run_cases("families", t.pick(12000, 600000), t.pick(20.0, 900.0), |r, c, o| if c % 4 == 0 { fit_case::<f32>(r, c, o) } else { fit_case::<f64>(r, c, o) });
}
