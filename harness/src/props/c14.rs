//! C14 — confidence band radius is the two-sided Student-t band of the fitted curve

use crate::la::{self, Mat};
use crate::problem::*;
use crate::rng::Rng;
use crate::run::*;
use crate::sc::{widen, Sc};
use crate::statfit::*;
use crate::tdist::t_quantile;
use serde_json::json;

fn p_grid() -> Vec<f64> {
    let mut v = vec![1e-6, 1e-4, 0.01, 0.05, 0.1, 0.2, 0.3, 0.4, 0.5, 0.6, 0.683, 0.7, 0.8, 0.85, 0.88, 0.9, 0.93, 0.95, 0.954, 0.97, 0.98, 0.99, 0.995, 0.997, 0.999, 0.9999, 0.99999, 1.0 - 1e-6];
    for i in 1..=12 {
        v.push(0.04 * i as f64 + 0.013);
    }
    v.sort_by(|a, b| a.partial_cmp(b).unwrap());
    v
}

fn case_t<T: Sc>(rng: &mut Rng, case: u64, out: &mut CaseOut) {
    let stream = "fits";
    let Some((spec, class)) = gen_stat_spec(rng, T::IS_F64) else {
        out.inconcl("shape not constructible");
        return;
    };
    let cfg = LmCfg::default_cfg();
    let Some(r) = fit_stats::<T>(&spec, &cfg, class) else {
        violation(out, stream, case, "valid problem rejected", spec.to_json());
        return;
    };
    let sf = match r {
        Ok(sf) => sf,
        Err(_) => {
            out.count("fit_with_statistics_err");
            return;
        }
    };
    out.seen("class", class);
    out.count(if sf.stats.is_raw() { "fits_of_builder_models_without_wrapper" } else if sf.stats.is_clone() { "cloned_statistics_objects_judged" } else { "fits_through_the_forwarding_wrapper" });
    if let Some(cp) = &sf.clone_problem {
        out.evals += 1;
        violation(out, stream, case, cp.clone(), json!({"problem": spec.to_json()}));
        return;
    }
    let invariant_first = matches!(&spec.model, ModelKind::Built(ms) | ModelKind::Hand(ms) if ms.basis.iter().position(|b| b.params().is_empty()).is_some_and(|i| i + 1 < ms.basis.len()));
    if invariant_first {
        out.count("models_with_a_parameter_free_function_before_other_functions");
    }
    if case < 16 {
        out.sample(json!({"class": class, "N": sf.n, "M": sf.m, "P": sf.p, "degrees_of_freedom": sf.nu, "alpha_hat": sf.alpha, "scalar": T::NAME}));
    }
    out.seen("degrees_of_freedom", format!("{}", sf.nu));
    out.nontrivial.push(spec.hash());
    let cov = widen(sf.stats.covariance_matrix());
    let (j, h) = oracle_jacobians::<T>(&spec, &sf.alpha, &sf.c);
    let detail = |extra: serde_json::Value| json!({"problem": spec.to_json(), "alpha_hat": sf.alpha, "c_hat": sf.c.d, "nu": sf.nu, "extra": extra});
    // is the value comparison decidable here?
    let scaled = scaled_normal_matrix(&h);
    let value_ok = cov.all_finite() && matches!(&scaled, Some((_, _, kappa)) if kappa * T::EPS <= 1e-3);
    // is the library's covariance itself inside the normal range of the scalar type? (f32 variances of
    // quantities in tiny units are not: the band, which is of the size of the curve, still has to be right)
    let (tiny, huge) = if T::IS_F64 { (1e-290, 1e290) } else { (1e-30, 1e30) };
    let cov_in_range = cov.d.iter().all(|v| *v == 0.0 || (v.abs() > tiny && v.abs() < huge)) && (0..cov.r).all(|i| cov.at(i, i) > tiny);
    // sigma^2 of the oracle-covariance reference comes from the oracle's own residual where that is not
    // dominated by rounding (independent of the library's reduced_chi2)
    let sigma2 = match oracle_sigma2::<T>(&spec, &sf.alpha, &sf.c, sf.nu) {
        Some((s2, _)) => {
            out.count("sigma2_from_the_oracle_residual");
            s2
        }
        None => sf.stats.reduced_chi2().w(),
    };
    let oracle_inv = scaled.as_ref().map(|(d, g, _)| OracleInverse::new(d, g));
    let ps = p_grid();
    let mut prev: Option<Vec<f64>> = None;
    let covf = cov.fro();
    for (pi, p) in ps.iter().enumerate() {
        let pt = T::of(*p);
        if !(pt.w() > 0.0 && pt.w() < 1.0) {
            continue;
        }
        let rad = sf.stats.confidence_band_radius(pt);
        let rad: Vec<f64> = rad.iter().map(|v| v.w()).collect();
        out.evals += 1;
        if rad.len() != sf.n {
            violation(out, stream, case, format!("confidence band has {} entries for {} samples", rad.len(), sf.n), detail(json!(null)));
            return;
        }
        for (i, r) in rad.iter().enumerate() {
            if !r.is_finite() || *r < 0.0 {
                violation(out, stream, case, format!("confidence band radius at sample {i} for p={p} is {r:e} (must be finite and non-negative) [{class}]"), detail(json!({"p": p, "radius": fmt_vec(&rad)})));
                return;
            }
        }
        if let Some(pr) = &prev {
            for i in 0..sf.n {
                // non-decreasing in p (one rounding of slack in T)
                if rad[i] < pr[i] * (1.0 - 4.0 * T::EPS) {
                    violation(out, stream, case, format!("band radius decreases with p at sample {i}: {:e} at p={} but {:e} at p={p}", pr[i], ps[pi - 1], rad[i]), detail(json!(null)));
                    return;
                }
            }
        }
        // the comparison with the library's OWN covariance is a consistency relation between two
        // reported quantities: it needs no well-conditioned normal matrix (its absolute term covers the
        // cancellation in j^T Cov j), only a covariance inside the range of the scalar type
        let own_ok = cov.all_finite() && cov_in_range;
        if value_ok || own_ok {
            let q = (1.0 + pt.w()) / 2.0;
            let t = t_quantile(q, sf.nu as f64);
            let mut worst: f64 = 0.0;
            let mut worst_o: f64 = 0.0;
            for i in 0..sf.n {
                let ji: Vec<f64> = (0..j.c).map(|k| j.at(i, k)).collect();
                let cj = cov.mul(&Mat::colvec(&ji));
                let quad = la::dot(&ji, &cj.d);
                let ref2 = t * t * quad.max(0.0);
                let jn2 = la::dot(&ji, &ji);
                let rel = if *p > 0.9999 || *p < 1e-3 { 2e-3 } else { 4e-4 };
                if cov_in_range {
                    let tol = rel * ref2 + 64.0 * T::EPS * t * t * jn2 * covf + f64::MIN_POSITIVE;
                    let ratio = (rad[i] * rad[i] - ref2).abs() / tol;
                    worst = worst.max(ratio);
                }
                // independent reference: the oracle's own sigma^2 (H^T H)^-1 in f64
                if let (true, Some((_, _, kappa)), Some(inv)) = (value_ok, &scaled, &oracle_inv) {
                    if sigma2.is_finite() && sigma2 > 0.0 {
                        let refo2 = t * t * sigma2 * inv.quad(&ji);
                        let tol_o = (rel + 256.0 * T::EPS * kappa) * refo2 + f64::MIN_POSITIVE;
                        let r2 = rad[i] * rad[i];
                        // only where the radius itself is representable in T
                        let (rmin, rmax) = if T::IS_F64 { (1e-290, 1e290) } else { (1e-35, 1e35) };
                        if refo2.sqrt() > rmin && refo2.sqrt() < rmax {
                            let ratio_o = (r2 - refo2).abs() / tol_o;
                            worst_o = worst_o.max(ratio_o);
                        }
                    }
                }
            }
            out.ratio("radius_squared_vs_oracle_covariance", worst_o);
            if worst_o > 1.0 {
                violation(out, stream, case, format!("band radius is not t·sqrt(j_i^T sigma^2 (H^T H)^-1 j_i) with the oracle's own covariance for p={p}, nu={} (ratio {worst_o:.3e}) [{class}]", sf.nu), detail(json!({"p": p, "radius": rad, "t": t})));
                return;
            }
            out.ratio("radius_squared_vs_reference", worst);
            if worst > 1.0 {
                violation(out, stream, case, format!("band radius is not t((1+p)/2; N-M-P)·sqrt(j_i^T Cov j_i) for p={p}, nu={} (ratio {worst:.3e}, oracle t={t})", sf.nu), detail(json!({"p": p, "radius": rad, "t": t})));
                return;
            }
            out.count(if value_ok { "value_comparisons" } else { "own_covariance_comparisons_on_ill_conditioned_fits" });
        }
        prev = Some(rad);
    }
    if !value_ok {
        out.inconcl("normal matrix numerically singular: value comparison skipped (length, finiteness, sign, monotonicity still checked)");
    }
    // documented panic for p outside (0,1) or non-finite
    for bad in [0.0, 1.0, -0.1, 1.5, f64::NAN, f64::INFINITY, f64::NEG_INFINITY] {
        let r = guarded(|| sf.stats.confidence_band_radius(T::of(bad)));
        out.evals += 1;
        if r.is_ok() {
            violation(out, stream, case, format!("confidence_band_radius({bad}) returned instead of panicking as documented"), detail(json!(null)));
            return;
        }
        out.count("documented_panics_observed");
    }
    if case < 3 {
        out.sample(json!({"class": class, "N": sf.n, "M": sf.m, "P": sf.p, "nu": sf.nu, "p_values": ps.len(), "value_comparison": value_ok}));
    }
}

/// the same monitor inside a child process of another build profile (release: no debug assertions,
/// no overflow checks) - the documented panic and the values must not depend on the profile
pub fn worker_case(rng: &mut Rng, case: u64, out: &mut CaseOut, _ops: &crate::procmon::OpLog) {
    if case % 4 == 0 {
        case_t::<f32>(rng, case, out)
    } else {
        case_t::<f64>(rng, case, out)
    }
}

pub fn run(ctx: &Ctx) {
    ctx.rule("successful fit_with_statistics results (same three classes as C13; degrees of freedom 1..30 on purpose, weighted and unweighted, f32/f64) x 40 probabilities in (0,1) including 1e-6 and 1-1e-6: length N, every entry finite and >= 0, non-decreasing in p; where the normal matrix is numerically positive definite the squared radius is compared with t_oracle((1+p)/2; N-M-P)^2 · j_i^T Cov j_i using the unweighted oracle Jacobian row and the library's own covariance; p in {0,1,-0.1,1.5,NaN,+-inf} must panic. The stream is run in-process (checked profile: debug assertions and overflow checks on) and again in child processes of the release profile. distinct = problem hash");
    ctx.assume("the oracle's Student-t quantile is the harness's own (incomplete beta + bisection, self-tested against a committed scipy table); relative tolerance 4e-4 absorbs the library's third-party quantile approximation");
    let t = ctx.tier;
    ctx.run_cases("fits", t.pick(8000, 240000), t.pick(20.0, 900.0), |r, c, o| if c % 4 == 0 { case_t::<f32>(r, c, o) } else { case_t::<f64>(r, c, o) });
    // the same monitor under the release profile (child processes)
    let exe = crate::procmon::exe_for_profile("release");
    if std::path::Path::new(&exe).exists() {
        crate::procmon::run_in_children(ctx, &exe, "release", "fits-release", t.pick(3000, 60000), 20.0, t.pick(120.0, 900.0));
    } else {
        ctx.harness_error(format!("worker binary for profile release missing: {exe}"));
    }
}
