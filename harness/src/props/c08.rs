//! C08 — construction and fitting always terminate without panicking
//!
//! Decided at the process boundary: every case runs in a child process that
//! streams BEGIN/OP/END events; panics are caught in the child and reported as
//! events; the parent measures the child's CPU time and kills a case that
//! exceeds its budget (then replays it in isolation with 3x the budget).

use crate::gen::*;
use crate::la::Mat;
use crate::problem::*;
use crate::procmon::*;
use crate::rng::Rng;
use crate::run::*;
use crate::sc::Sc;
use crate::spy::SpyCtl;
use crate::zoo::*;
use nalgebra::DVector;
use serde_json::json;

pub const CPU_BUDGET_S: f64 = 10.0;

fn hostile_vec(rng: &mut Rng, v: &mut [f64], p: f64) -> u64 {
    let mut n = 0;
    for x in v.iter_mut() {
        if rng.chance(p) {
            *x = hostile_f64(rng);
            n += 1;
        }
    }
    n
}

fn exercise<T: Sc>(spec: &ProblemSpec, alphas: &[Vec<f64>], cfg: &LmCfg, out: &mut CaseOut, ops: &OpLog) {
    ops.op(&format!("build {} N={} M={} P={} S={} {}", T::NAME, spec.model.n(), spec.model.m(), spec.model.np(), spec.s(),
        if spec.par { "parallel" } else { "sequential" }));
    let ctl = SpyCtl::new();
    let mut prob = match build_problem::<T>(spec, &ctl) {
        Ok(p) => p,
        Err(e) => {
            out.seen("build_errors", e.split_whitespace().next().unwrap_or("").to_string());
            out.evals += 1;
            return;
        }
    };
    out.evals += 1;
    for a in alphas {
        ops.op(&format!("set_params({:?})", a));
        prob.set_params(&DVector::from_iterator(a.len(), a.iter().map(|v| T::of(*v))));
        ops.op("residuals/jacobian/coefficients");
        let r = prob.residuals();
        let j = prob.jacobian();
        let c = prob.coeffs();
        out.evals += 1;
        out.seen("state_after_update", format!("residuals={} jacobian={} coefficients={}", r.is_some(), j.is_some(), c.is_some()));
    }
    let lm = cfg.make::<T>();
    ops.op(&format!("fit {}", cfg.to_json()));
    let fit = prob.fit(&lm);
    out.evals += 1;
    let term = fit.termination();
    out.seen("terminations", term.split('(').next().unwrap_or("").split(' ').next().unwrap_or("").to_string());
    out.count(if fit.is_ok() { "fit_ok" } else { "fit_err" });
    // queries on the result must not panic either
    ops.op("fit result accessors");
    let _ = fit.coeffs();
    let _ = fit.best_fit();
    let _ = fit.nonlinear_parameters();
    let _ = fit.problem_residuals();
    let _ = fit.problem_jacobian();
    if !spec.mrhs {
        ops.op("build (for statistics)");
        if let Ok(p2) = build_problem::<T>(spec, &SpyCtl::new()) {
            ops.op(&format!("fit_with_statistics {}", cfg.to_json()));
            match p2.fit_with_statistics(&lm) {
                Ok((_f, stats)) => {
                    out.count("statistics_ok");
                    ops.op("statistics accessors");
                    let _ = stats.covariance_matrix();
                    let _ = stats.calculate_correlation_matrix();
                    let _ = stats.weighted_residuals();
                    let _ = stats.regression_standard_error();
                    let _ = stats.reduced_chi2();
                    let _ = stats.nonlinear_parameters_variance();
                    let _ = stats.linear_coefficients_variance();
                    for p in [0.5, 0.9, 0.999] {
                        let _ = stats.confidence_band_radius(T::of(p));
                    }
                    out.evals += 1;
                }
                Err(_f) => {
                    out.count("statistics_err");
                    out.evals += 1;
                }
            }
        }
    }
}

/// (i)+(vii): ordinary multi-exponential fits from random starts under random optimizer settings
fn random_start_case<T: Sc>(rng: &mut Rng, case: u64, out: &mut CaseOut, ops: &OpLog) {
    let k = rng.int(2, 3);
    let offset = rng.chance(0.7);
    let n = rng.int(8, 48);
    let hi = rng.range(4.0, 40.0);
    let x = grid(rng, n, 0.0, hi, false);
    let mspec = z1(x, k, offset);
    let mut taus = Vec::new();
    let mut t = rng.range(0.5, 2.0);
    for _ in 0..k {
        taus.push(t);
        t *= rng.range(2.0, 5.0);
    }
    let noise = if rng.chance(0.5) { 0.0 } else { 0.05 };
    let s = if rng.chance(0.7) { 1 } else { rng.int(2, 3) };
    let mut g = gen_problem_for(rng, &GenOpts { noise, force_s: Some(s), ..Default::default() }, mspec, taus.clone());
    let style = rng.below(3);
    g.spec.alpha0 = match style {
        0 => (0..k).map(|_| rng.range(-10.0, 10.0)).collect(),
        1 => taus.iter().map(|t| t * rng.logrange(0.2, 5.0)).collect(),
        _ => taus.iter().map(|t| t * rng.range(-1.0, 3.0)).collect(),
    };
    let cfg = if rng.chance(0.4) { LmCfg::default_cfg() } else { LmCfg::random(rng) };
    out.nontrivial.push(g.spec.hash());
    out.seen("classes", "random-start");
    if case < 16 {
        out.sample(json!({"class": "random-start", "start": g.spec.alpha0, "truth": taus, "optimizer": cfg.to_json(), "N": n}));
    }
    exercise::<T>(&g.spec, &[], &cfg, out, ops);
}

/// (ii): hostile IEEE-754 values substituted into x, y, w, alpha of zoo problems
fn hostile_zoo_case<T: Sc>(rng: &mut Rng, case: u64, out: &mut CaseOut, ops: &OpLog) {
    let mut g = gen_problem(rng, &GenOpts { nmax: 24, smax: 3, ..Default::default() });
    let p = *rng.pick(&[0.02, 0.1, 0.3, 0.6]);
    let mut nh = 0;
    let mut mspec = g.spec.model.spec().unwrap().clone();
    if rng.chance(0.5) {
        nh += hostile_vec(rng, &mut mspec.x, p);
    }
    if rng.chance(0.5) {
        nh += hostile_vec(rng, &mut g.spec.y.d, p);
    }
    if rng.chance(0.5) {
        if g.spec.w.is_none() {
            g.spec.w = Some(vec![1.0; mspec.n()]);
        }
        nh += hostile_vec(rng, g.spec.w.as_mut().unwrap(), p);
    }
    if rng.chance(0.5) {
        nh += hostile_vec(rng, &mut g.spec.alpha0, p.max(0.3));
    }
    g.spec.model = match g.spec.model {
        ModelKind::Built(_) => ModelKind::Built(mspec),
        _ => {
            if rng.chance(0.3) {
                ModelKind::HandRejecting(mspec)
            } else {
                ModelKind::Hand(mspec)
            }
        }
    };
    if rng.chance(0.3) {
        g.spec.eps = Some(hostile_f64(rng));
        nh += 1;
    }
    let np = g.spec.alpha0.len();
    let mut alphas = Vec::new();
    for _ in 0..rng.int(0, 3) {
        let mut a = wide_alpha(rng, &g.alpha_true);
        nh += hostile_vec(rng, &mut a, 0.5);
        alphas.push(a);
    }
    let _ = np;
    if nh > 0 {
        out.nontrivial.push(g.spec.hash());
    }
    out.seen("classes", "hostile-zoo");
    out.add("hostile_values_injected", nh);
    let cfg = LmCfg::random(rng);
    if case < 16 {
        out.sample(json!({"class": "hostile-zoo", "hostile_values": nh, "alpha0": fmt_vec(&g.spec.alpha0)}));
    }
    exercise::<T>(&g.spec, &alphas, &cfg, out, ops);
}

/// (iii)+(iv): table models with hostile entries and degenerate shapes (N=1, N<M, M=1, P=1)
fn hostile_table_case<T: Sc>(rng: &mut Rng, case: u64, out: &mut CaseOut, ops: &OpLog) {
    let n = rng.int(1, 9);
    let m = rng.int(1, 4);
    let p = rng.int(1, 3);
    let s = rng.int(1, 3);
    let ph = *rng.pick(&[0.0, 0.05, 0.2, 0.6]);
    let mut nh = 0;
    let mut base = Mat::from_fn(n, m, |_, _| rng.normal());
    nh += hostile_vec(rng, &mut base.d, ph);
    let slope: Vec<Mat> = (0..p)
        .map(|_| {
            let mut sl = Mat::from_fn(n, m, |_, _| rng.normal() * rng.logrange(1e-3, 1e3));
            nh += hostile_vec(rng, &mut sl.d, ph);
            sl
        })
        .collect();
    let mut y = Mat::from_fn(n, s, |_, _| rng.normal());
    nh += hostile_vec(rng, &mut y.d, ph * 0.5);
    let w = if rng.chance(0.5) {
        let mut w: Vec<f64> = (0..n).map(|_| rng.range(0.1, 3.0)).collect();
        nh += hostile_vec(rng, &mut w, ph * 0.5);
        Some(w)
    } else {
        None
    };
    let mut alpha0: Vec<f64> = (0..p).map(|_| rng.normal()).collect();
    nh += hostile_vec(rng, &mut alpha0, ph);
    let spec = ProblemSpec {
        model: ModelKind::Table { n, m, p, base, slope },
        alpha0,
        y,
        w,
        eps: if rng.chance(0.2) { Some(rng.logrange(1e-12, 1.0) * rng.sign()) } else { None },
        mrhs: s > 1 || rng.chance(0.3),
        par: rng.chance(0.3),
    };
    let mut alphas = Vec::new();
    for _ in 0..rng.int(0, 2) {
        let mut a: Vec<f64> = (0..p).map(|_| rng.normal() * 3.0).collect();
        nh += hostile_vec(rng, &mut a, 0.4);
        alphas.push(a);
    }
    out.nontrivial.push(spec.hash());
    out.seen("classes", if n < m { "table N<M" } else if n == 1 { "table N=1" } else { "table" });
    out.add("hostile_values_injected", nh);
    let cfg = LmCfg::random(rng);
    if case < 16 {
        out.sample(json!({"class": "hostile-table", "N": n, "M": m, "P": p, "S": s, "hostile_values": nh}));
    }
    exercise::<T>(&spec, &alphas, &cfg, out, ops);
}

/// (ix) observations that are exactly zero: the optimizer stops with zero residuals before it ever asks
/// for a Jacobian, the fit counts as successful, and the statistics are the first code to see the
/// derivatives - which are hostile here while the basis functions themselves are finite
fn zero_residual_case<T: Sc>(rng: &mut Rng, case: u64, out: &mut CaseOut, ops: &OpLog) {
    let m = rng.int(1, 4);
    let p = rng.int(1, 3);
    let n = m + p + rng.int(1, 6);
    let s = if rng.chance(0.8) { 1 } else { rng.int(2, 3) };
    let ph = *rng.pick(&[0.05, 0.3, 1.0]);
    let mut nh = 0;
    let base = Mat::from_fn(n, m, |_, _| rng.normal());
    let slope: Vec<Mat> = (0..p).map(|_| Mat::from_fn(n, m, |_, _| rng.normal())).collect();
    // the derivative tables the model reports: the true slopes with hostile entries
    let dbad: Vec<Mat> = slope
        .iter()
        .map(|sl| {
            let mut d = sl.clone();
            nh += hostile_vec(rng, &mut d.d, ph);
            d
        })
        .collect();
    let y = Mat::from_fn(n, s, |_, _| if rng.chance(0.5) { 0.0 } else { -0.0 });
    let w = if rng.chance(0.5) { Some((0..n).map(|_| rng.range(0.1, 3.0) * rng.sign()).collect()) } else { None };
    let alpha0: Vec<f64> = (0..p).map(|_| rng.normal()).collect();
    let spec = ProblemSpec { model: ModelKind::BadDeriv(Box::new(ModelKind::Table { n, m, p, base, slope }), dbad), alpha0, y, w, eps: None, mrhs: s > 1, par: rng.chance(0.3) };
    out.nontrivial.push(spec.hash());
    out.seen("classes", "zero observations, hostile derivatives");
    out.add("hostile_values_injected", nh);
    let cfg = if rng.chance(0.5) { LmCfg::default_cfg() } else { LmCfg::random(rng) };
    if case < 16 {
        out.sample(json!({"class": "zero-observations", "N": n, "M": m, "P": p, "S": s, "hostile_values": nh}));
    }
    exercise::<T>(&spec, &[], &cfg, out, ops);
}

/// (x) many observations: time and memory must stay proportional to N (a decay + offset on 1.2e5..1.6e5
/// samples; anything quadratic in N needs > 100 GB and cannot be allocated on this machine)
fn large_n_case<T: Sc>(rng: &mut Rng, case: u64, out: &mut CaseOut, ops: &OpLog) {
    let n = rng.int(120_000, 160_000);
    let t = rng.range(0.8, 1.6);
    let x = grid(rng, n, 0.0, 4.0 * t, false);
    let mut g = gen_problem_for(rng, &GenOpts { noise: 0.01, force_s: Some(1), ..Default::default() }, z1(x, 1, true), vec![t]);
    g.spec.mrhs = false;
    g.spec.par = rng.chance(0.5);
    g.spec.alpha0 = vec![t * rng.range(0.8, 1.25)];
    out.nontrivial.push(g.spec.alpha0[0].to_bits() ^ n as u64);
    out.seen("classes", "large N (1.2e5..1.6e5 observations)");
    out.count("large_n_cases");
    if case < 1_000_000 {
        out.sample(json!({"class": "large-N", "N": n, "parallel": g.spec.par}));
    }
    exercise::<T>(&g.spec, &[], &LmCfg::default_cfg(), out, ops);
}

/// (xi) a builder-made model with a basis function of 11..14 parameters: a user type implementing the
/// public BasisFunction trait (closures stop at ten), next to ordinary closures and invariant functions
fn custom_arity_case<T: Sc>(rng: &mut Rng, case: u64, out: &mut CaseOut, ops: &OpLog) {
    let cs = crate::coded::random_coded_custom_arity(rng);
    let np = cs.names.len();
    let n = cs.x.len();
    let alpha0: Vec<f64> = (0..np).map(|i| 0.3 + 0.71 * i as f64 + rng.range(0.0, 0.2)).collect();
    let s = if rng.chance(0.7) { 1 } else { 2 };
    let y = Mat::from_fn(n, s, |_, _| rng.normal() * 3.0);
    let w = if rng.chance(0.5) { Some((0..n).map(|_| rng.range(0.3, 2.0)).collect()) } else { None };
    ops.op(&format!("model with a basis function of arity {}", cs.funcs.iter().map(|f| f.params.len()).max().unwrap_or(0)));
    let spec = ProblemSpec { model: ModelKind::Coded(cs), alpha0: alpha0.clone(), y, w, eps: None, mrhs: s > 1, par: rng.chance(0.3) };
    out.nontrivial.push(spec.hash());
    out.seen("classes", "custom BasisFunction type of arity 11..14");
    let cfg = LmCfg { ftol: 1e-8, xtol: 1e-8, gtol: 0.0, stepbound: 100.0, patience: 3, scale_diag: true, default: false };
    let step: Vec<f64> = alpha0.iter().map(|a| a * rng.range(0.9, 1.1)).collect();
    if case < 1_000_000 {
        out.sample(json!({"class": "custom-arity", "P": np, "N": n}));
    }
    exercise::<T>(&spec, &[step], &cfg, out, ops);
}

/// (viii) whatever the model builder accepts must be usable: models built from random (near-valid)
/// builder programs with closures of arbitrary arity are evaluated, differentiated and fitted
fn builder_program_case(rng: &mut Rng, case: u64, out: &mut CaseOut, ops: &OpLog) {
    use crate::props::c15::{build_real, mutate, random_valid};
    use varpro::prelude::*;
    use crate::props::c15::BCall;
    let mut p = random_valid(rng);
    if rng.chance(0.35) {
        // a stray derivative for ANOTHER model parameter directly after the derivatives of a function
        // (the name pool contains names that are substrings of each other)
        let funcs: Vec<usize> = p.calls.iter().enumerate().filter(|(_, c)| matches!(c, BCall::Function { .. })).map(|(i, _)| i).collect();
        if let Some(&fi) = funcs.get(rng.below(funcs.len().max(1))) {
            if let BCall::Function { params, arity } = p.calls[fi].clone() {
                let others: Vec<String> = p.names.iter().filter(|n| !params.contains(n)).cloned().collect();
                if !others.is_empty() {
                    let mut end = fi + 1;
                    while end < p.calls.len() && matches!(p.calls[end], BCall::Deriv { .. }) {
                        end += 1;
                    }
                    let name = rng.pick(&others).clone();
                    p.calls.insert(rng.int(fi + 1, end), BCall::Deriv { name, arity });
                    out.count("builder_programs_with_a_stray_derivative");
                }
            }
        }
    }
    for _ in 0..rng.below(3) {
        mutate(rng, &mut p);
    }
    ops.op(&format!("model builder program {:?} / {:?}", p.names, p.calls));
    out.seen("classes", "builder-program");
    out.evals += 1;
    let model = match build_real(&p) {
        Ok(m) => m,
        Err(_) => {
            out.count("builder_programs_rejected");
            return;
        }
    };
    out.count("builder_programs_accepted");
    out.nontrivial.push(crate::rng::fnv(format!("{:?}", p).as_bytes()));
    let n = model.output_len();
    let np = model.parameter_count();
    ops.op("eval / eval_partial_deriv on the accepted model");
    let _ = model.eval();
    for k in 0..np {
        let _ = model.eval_partial_deriv(k);
    }
    if n == 0 {
        return;
    }
    let y = Mat::from_fn(n, 1, |i, _| (0.3 * i as f64).cos() + 2.0);
    let spec = ProblemSpec { model: ModelKind::OneCol { n, row: 0 }, alpha0: vec![0.0; np], y, w: None, eps: None, mrhs: false, par: rng.chance(0.3) };
    let spy = crate::spy::Spy::new(crate::zoo::AnyModel::Built(model), SpyCtl::new());
    ops.op("problem build + fit_with_statistics on the accepted model");
    if let Ok(prob) = build_problem_with::<f64>(&spec, spy) {
        let lm = LmCfg { ftol: 1e-8, xtol: 1e-8, gtol: 0.0, stepbound: 100.0, patience: 5, scale_diag: true, default: false }.make::<f64>();
        let _ = prob.fit_with_statistics(&lm);
    }
    if case < 64 {
        out.sample(json!({"class": "builder-program", "names": p.names, "calls": p.calls.len()}));
    }
}

pub fn case(rng: &mut Rng, case: u64, out: &mut CaseOut, ops: &OpLog) {
    let f32_ = rng.chance(0.3);
    // two cases in ten thousand are large (about two per profile in the quick tier)
    if case % 5000 == 2500 {
        return if f32_ { large_n_case::<f32>(rng, case, out, ops) } else { large_n_case::<f64>(rng, case, out, ops) };
    }
    if rng.chance(0.15) {
        return builder_program_case(rng, case, out, ops);
    }
    if rng.chance(0.03) {
        return if f32_ { custom_arity_case::<f32>(rng, case, out, ops) } else { custom_arity_case::<f64>(rng, case, out, ops) };
    }
    match rng.below(10) {
        0..=3 => {
            if f32_ {
                random_start_case::<f32>(rng, case, out, ops)
            } else {
                random_start_case::<f64>(rng, case, out, ops)
            }
        }
        4..=6 => {
            if f32_ {
                hostile_zoo_case::<f32>(rng, case, out, ops)
            } else {
                hostile_zoo_case::<f64>(rng, case, out, ops)
            }
        }
        7..=8 => {
            if f32_ {
                hostile_table_case::<f32>(rng, case, out, ops)
            } else {
                hostile_table_case::<f64>(rng, case, out, ops)
            }
        }
        _ => {
            if f32_ {
                zero_residual_case::<f32>(rng, case, out, ops)
            } else {
                zero_residual_case::<f64>(rng, case, out, ops)
            }
        }
    }
}

pub fn run(ctx: &Ctx) {
    ctx.rule("cases: (a) multi-exponential fits from random starts (tau in [-10,10], 0.2x-5x and -1x..3x the truth) under default and random optimizer settings; (b) zoo problems with values from the hostile IEEE-754 pool {0,-0,+-1,NaN,+-inf,+-MAX,MIN_POSITIVE,5e-324,1e+-300,1e+-154,...} substituted into x, y, w, alpha, epsilon with probability 0.02..0.6; (d) models accepted by the model builder from random near-valid builder programs (closures of arity 1..10) are evaluated, differentiated and fitted; (c) table models N=1..9 (including N<M), M=1..4, P=1..3, S=1..3 with hostile entries in values and derivatives; (e) exactly zero observations with finite basis functions and hostile derivatives (the fit succeeds without ever requesting a Jacobian, so the statistics meet the derivatives first); (g) builder-made models with a basis function of 11..14 parameters (a user type implementing the BasisFunction trait); (f) every 5000th case has 1.2e5..1.6e5 observations (memory and time must stay linear in N: a dense N x N object cannot be allocated here and aborts the child); 30% f32; each case = build, 0..3 parameter updates with queries, fit, fit_with_statistics and every statistics accessor, executed in a child process under a CPU-time watchdog. distinct = hash of the generated problem; non-trivial = hostile value injected or random start");
    ctx.assume(&format!("liveness restated as bounded progress: every case returns within {CPU_BUDGET_S} CPU-seconds (isolated replay: 3x), >=100x the slowest legitimately terminating case of this corpus"));
    ctx.assume("panics are caught inside the child (catch_unwind) and reported as events; the panic location decides whether the subject or the harness panicked");
    let n = ctx.tier.pick(10000, 600000);
    let wall = ctx.tier.pick(120.0, 1800.0);
    for profile in ["checked", "release"] {
        let exe = exe_for_profile(profile);
        if !std::path::Path::new(&exe).exists() {
            ctx.harness_error(format!("worker binary for profile {profile} missing: {exe}"));
            continue;
        }
        run_in_children(ctx, &exe, profile, "hostile", n, CPU_BUDGET_S, wall);
    }
    ctx.extra("profiles", json!(["checked (overflow checks + debug assertions)", "release"]));
    ctx.extra("cpu_budget_s", json!(CPU_BUDGET_S));
}
