//! C19 — reported uncertainties are statistically calibrated under the model assumptions
//!
//! A statistical monitor: K independent Gaussian noise realisations of a fixed
//! design; empirical coverage of the confidence band (per sample) and of the
//! Student-t intervals built from the reported variances (per parameter) must
//! lie within p ± (6·sqrt(p(1-p)/K) + 0.008·sqrt(p(1-p))); with weights exactly 1/sigma_i
//! the reduced chi² must average 1 within 6·sqrt(2/(nu·K)) + 0.002.

use crate::la::Mat;
use crate::problem::*;
use crate::rng::Rng;
use crate::run::*;
use crate::spy::SpyCtl;
use crate::tdist::t_quantile;
use crate::zoo::*;
use serde_json::json;
use std::sync::Mutex;

const PS: [f64; 6] = [0.1, 0.3, 0.5, 0.683, 0.9, 0.99];

#[derive(Clone)]
struct Design {
    name: String,
    mspec: ModelSpec,
    alpha: Vec<f64>,
    c: Vec<f64>,
    sigma: Vec<f64>,
    /// weights = sign_i*scale/sigma_i (None: unweighted, requires homoscedastic sigma)
    wscale: Option<f64>,
    /// the problem depends on the squares of the weights only: designs in the second half of the list use random signs
    wsign: Vec<f64>,
    /// problem built through the parallel constructor
    par: bool,
    /// realisations per block of work (large designs use small blocks, i.e. fewer realisations)
    block: u64,
}

fn designs(seed: u64, count: usize) -> Vec<Design> {
    let mut out = Vec::new();
    let mut rng = Rng::keyed(seed, "C19/designs", 0);
    for i in 0..count {
        let fam = i % 4;
        let n = [10usize, 14, 30][(i / 4) % 3];
        let (mspec, alpha) = match fam {
            0 => {
                let t1 = rng.range(0.6, 1.2);
                let t2 = t1 * rng.range(3.5, 5.0);
                (z1(grid(&mut rng, n, 0.0, 4.0 * t2, false), 2, true), vec![t1, t2])
            }
            1 => {
                let hi = 10.0;
                (z3(grid(&mut rng, n.max(14), 0.0, hi, false)), vec![rng.range(1.5, 2.5), rng.range(4.0, 6.0), rng.range(0.9, 1.4)])
            }
            2 => {
                let t = rng.range(0.8, 1.6);
                (z1(grid(&mut rng, n, 0.0, 4.0 * t, false), 1, true), vec![t])
            }
            _ => {
                // a damped oscillation listed *before* the offset: basis values, derivatives and (below)
                // coefficients of either sign, so that the rows of the model Jacobian have mixed signs
                let x = grid(&mut rng, 40, 0.0, 6.0, false);
                (ModelSpec { x, basis: vec![Basis::Sin(0), Basis::ExpCos(1, 0)], np: 2 }, vec![rng.range(1.3, 2.0), rng.range(0.05, 0.2)])
            }
        };
        let n = mspec.n();
        // designs in the second half of the list have coefficients of random sign
        let c: Vec<f64> = (0..mspec.m()).map(|_| rng.range(1.0, 4.0) * if i >= 4 { rng.sign() } else { 1.0 }).collect();
        let mode = (i + i / 4) % 3; // 0 homoscedastic unweighted, 1 heteroscedastic w=1/sigma, 2 heteroscedastic w=c/sigma
        // every fourth design has very small noise (1e-9 of the signal): calibration must not depend on the noise level
        let rel_noise = if i % 5 == 4 { 1e-9 } else { 1e-4 };
        let base = rel_noise * c.iter().map(|v| v.abs()).fold(0.0, f64::max);
        let sigma: Vec<f64> = if mode == 0 { vec![base; n] } else { (0..n).map(|_| base * rng.logrange(0.3, 3.0)).collect() };
        let wscale = match mode {
            0 => None,
            1 => Some(1.0),
            _ => Some(rng.logrange(0.2, 5.0)),
        };
        let wsign: Vec<f64> = (0..n).map(|_| if i >= 4 { rng.sign() } else { 1.0 }).collect();
        out.push(Design { name: format!("{} N={} {}", ["F1 two decays + offset", "F2 Gaussian + decay + offset", "F3 decay + offset", "F4 sine + damped cosine of one frequency"][fam], n, ["homoscedastic unweighted", "w=1/sigma", "w=c/sigma"][mode]) + if i % 5 == 4 { " (noise 1e-9)" } else { "" }, mspec, alpha, c, sigma, wscale, wsign, par: false, block: 500 });
    }
    // one large design: thousands of observations through the parallel constructor (1/50 of the
    // realisations of the other designs)
    {
        let n = 2048 + 2 * rng.int(20, 60) + 1;
        let t = rng.range(0.8, 1.6);
        let mspec = z1(grid(&mut rng, n, 0.0, 4.0 * t, false), 1, true);
        let c: Vec<f64> = vec![rng.range(1.0, 4.0), rng.range(1.0, 4.0) * rng.sign()];
        let base = 1e-3 * c.iter().map(|v| v.abs()).fold(0.0, f64::max);
        let sigma: Vec<f64> = (0..n).map(|_| base * rng.logrange(0.3, 3.0)).collect();
        let wsign: Vec<f64> = (0..n).map(|_| rng.sign()).collect();
        out.push(Design { name: format!("F3 decay + offset N={n} w=1/sigma, parallel problem"), mspec, alpha: vec![t], c, sigma, wscale: Some(1.0), wsign, par: true, block: 10 });
    }
    // one design in large units: sigma_i of 10..100 in the data's units, so that the weights 1/sigma_i
    // are far below one, with few samples per parameter (high leverage)
    {
        let n = 8;
        let t = rng.range(0.8, 1.6);
        let mspec = z1(grid(&mut rng, n, 0.0, 4.0 * t, false), 1, true);
        let c: Vec<f64> = vec![rng.range(1.0, 4.0) * 1e5, rng.range(1.0, 4.0) * 1e5 * rng.sign()];
        let base = 1e-4 * c.iter().map(|v| v.abs()).fold(0.0, f64::max);
        let sigma: Vec<f64> = (0..n).map(|_| base * rng.logrange(0.3, 3.0)).collect();
        out.push(Design { name: format!("F3 decay + offset N={n} in large units, w=1/sigma with sigma_i in [{:.0},{:.0}]", base * 0.3, base * 3.0), mspec, alpha: vec![t], c, sigma, wscale: Some(1.0), wsign: vec![1.0; n], par: false, block: 500 });
    }
    out
}

#[derive(Default, Clone)]
struct Tally {
    k: u64,
    failed: u64,
    band_in: Vec<Vec<u64>>,  // [p][sample]
    lin_in: Vec<Vec<u64>>,   // [p][coefficient]
    nonlin_in: Vec<Vec<u64>>, // [p][parameter]
    chi2_sum: f64,
}

fn realisation(d: &Design, rng: &mut Rng, t: &mut Tally) {
    let n = d.mspec.n();
    let m = d.mspec.m();
    let p = d.mspec.np;
    let nu = (n - m - p) as f64;
    let phi = d.mspec.phi64::<f64>(&d.alpha);
    let truth = phi.mul(&Mat::colvec(&d.c));
    let y = Mat::from_fn(n, 1, |i, _| truth.at(i, 0) + d.sigma[i] * rng.normal());
    let w = d.wscale.map(|s| d.sigma.iter().zip(&d.wsign).map(|(sg, sn)| sn * s / sg).collect::<Vec<f64>>());
    let spec = ProblemSpec { model: ModelKind::Hand(d.mspec.clone()), alpha0: d.alpha.iter().map(|a| a * 1.01).collect(), y, w, eps: None, mrhs: false, par: d.par };
    let Ok(prob) = build_problem::<f64>(&spec, &SpyCtl::new()) else {
        t.failed += 1;
        return;
    };
    let lm = LmCfg::default_cfg().make::<f64>();
    let Ok((fit, stats)) = prob.fit_with_statistics(&lm) else {
        t.failed += 1;
        return;
    };
    let (Some(bf), Some(chat)) = (fit.best_fit(), fit.coeffs()) else {
        t.failed += 1;
        return;
    };
    let ahat = fit.nonlinear_parameters();
    let vl = stats.linear_coefficients_variance();
    let vn = stats.nonlinear_parameters_variance();
    t.k += 1;
    t.chi2_sum += stats.reduced_chi2();
    if t.band_in.is_empty() {
        t.band_in = vec![vec![0; n]; PS.len()];
        t.lin_in = vec![vec![0; m]; PS.len()];
        t.nonlin_in = vec![vec![0; p]; PS.len()];
    }
    for (pi, pv) in PS.iter().enumerate() {
        let rad = stats.confidence_band_radius(*pv);
        for i in 0..n {
            if (bf[(i, 0)] - truth.at(i, 0)).abs() <= rad[i] {
                t.band_in[pi][i] += 1;
            }
        }
        let tq = t_quantile((1.0 + pv) / 2.0, nu);
        for j in 0..m {
            if (chat[(j, 0)] - d.c[j]).abs() <= tq * vl[j].sqrt() {
                t.lin_in[pi][j] += 1;
            }
        }
        for k in 0..p {
            if (ahat[k] - d.alpha[k]).abs() <= tq * vn[k].sqrt() {
                t.nonlin_in[pi][k] += 1;
            }
        }
    }
}

pub fn run(ctx: &Ctx) {
    ctx.rule("designs: F1 two decays + offset, F2 Gaussian peak + decay + offset, F3 decay + offset, F4 sin(wx) + exp(-ax)cos(wx) on 40 points (basis values, derivatives and whitened Jacobian rows of every sign pattern); F1-F3 on N in {10,14,30} points, coefficients in ±[1,4] (random signs from the fifth design on); noise Gaussian with sigma_i = 1e-4 (every fifth design: 1e-9) of the largest |coefficient| (homoscedastic, unweighted) or spread over a decade (weights 1/sigma_i, or c/sigma_i with c in [0.2,5]; from the fifth design on each weight carries a random sign); per design K independent realisations (quick 30000 on 8 designs, thorough 1000000 on 12; plus one large design with 2089..2169 observations through the parallel constructor and K/50 realisations, and one design in large units: 8 samples, sigma_i of 3..120 in the data's units, weights 1/sigma_i far below one), each fitted with fit_with_statistics from a start 1% off; tallies: true curve inside the band per sample, true c_j and alpha_k inside the Student-t interval built from the reported variance (oracle's own quantile), p in {0.1, 0.3, 0.5, 0.683, 0.9, 0.99}; mean reduced chi2 (1 for w=1/sigma, c^2 for w=c/sigma). Verdict per tally: |frequency - p| <= 6·sqrt(p(1-p)/K) + 0.008·sqrt(p(1-p)). evaluations = fits; distinct = (design, realisation block)");
    ctx.assume("6-sigma binomial bounds over <= 1e3 tests per run give a false-alarm rate < 1e-5 per run; the slack 0.008·sqrt(p(1-p)) (0.004 at p=0.5, 0.0008 at p=0.99) absorbs the O(noise) non-linearity bias and the library's quantile approximation; a pass says 'not distinguishable from calibrated at resolution ~0.01'");
    let t = ctx.tier;
    let k_per = t.pick(30000u64, 1000000u64);
    let ds = designs(ctx.seed, t.pick(8, 12));
    let nd = ds.len();
    let block = 500u64;
    let blocks = k_per / block;
    let tallies: Vec<Mutex<Tally>> = (0..nd).map(|_| Mutex::new(Tally::default())).collect();
    if ctx.replay.is_some() {
        println!("C19 is a statistical monitor: a replay re-runs the whole design at the recorded seed");
    }
    ctx.run_cases("realisations", nd as u64 * blocks, t.pick(120.0, 900.0), |rng, case, out| {
        let di = (case / blocks) as usize;
        let d = &ds[di];
        let mut local = Tally::default();
        for _ in 0..d.block {
            realisation(d, rng, &mut local);
        }
        out.evals += d.block;
        out.nontrivial.push(crate::rng::hash_u64s([di as u64, case]));
        let mut g = tallies[di].lock().unwrap();
        if g.band_in.is_empty() {
            *g = local;
        } else {
            g.k += local.k;
            g.failed += local.failed;
            g.chi2_sum += local.chi2_sum;
            if !local.band_in.is_empty() {
                for pi in 0..PS.len() {
                    for i in 0..g.band_in[pi].len() {
                        g.band_in[pi][i] += local.band_in[pi][i];
                    }
                    for i in 0..g.lin_in[pi].len() {
                        g.lin_in[pi][i] += local.lin_in[pi][i];
                    }
                    for i in 0..g.nonlin_in[pi].len() {
                        g.nonlin_in[pi][i] += local.nonlin_in[pi][i];
                    }
                }
            }
        }
    });
    if ctx.replay.is_some() {
        return;
    }
    // verdicts
    let mut out = CaseOut::default();
    let mut summary = Vec::new();
    for (di, d) in ds.iter().enumerate() {
        let g = tallies[di].lock().unwrap().clone();
        let k = g.k as f64;
        if g.k < 300 || (g.failed as f64) > 0.01 * (g.k + g.failed) as f64 {
            out.inconcl("too few successful realisations of a design");
            summary.push(json!({"design": d.name, "realisations": g.k, "failed": g.failed, "verdict": "inconclusive"}));
            continue;
        }
        let n = d.mspec.n();
        let nu = (n - d.mspec.m() - d.mspec.np) as f64;
        let mut worst_dev: f64 = 0.0;
        let mut cov_rows = Vec::new();
        for (pi, pv) in PS.iter().enumerate() {
            // 6 sigma of the binomial frequency plus a slack for the O(noise) non-linearity bias and the
            // library's quantile approximation; a relative error of the radius moves the coverage by an
            // amount proportional to the density at the quantile, so the slack scales like sqrt(p(1-p))
            // (0.004 at p = 0.5, 0.0024 at p = 0.9, 0.0008 at p = 0.99)
            let bound = 6.0 * (pv * (1.0 - pv) / k).sqrt() + 0.008 * (pv * (1.0 - pv)).sqrt();
            let mut check = |what: String, count: u64, out: &mut CaseOut| {
                let f = count as f64 / k;
                let dev = (f - pv).abs();
                worst_dev = worst_dev.max(dev / bound);
                out.ratio("coverage_deviation_over_bound", dev / bound);
                if dev > bound {
                    violation(out, "realisations", di as u64, format!("design '{}': empirical coverage of {what} at p={pv} is {f:.4} over K={} realisations (allowed {pv} ± {bound:.4})", d.name, g.k),
                        json!({"design": d.name, "p": pv, "frequency": f, "K": g.k, "bound": bound}));
                }
            };
            for i in 0..n {
                check(format!("the confidence band at sample {i}"), g.band_in[pi][i], &mut out);
            }
            for j in 0..g.lin_in[pi].len() {
                check(format!("the t-interval of linear coefficient {j}"), g.lin_in[pi][j], &mut out);
            }
            for kk in 0..g.nonlin_in[pi].len() {
                check(format!("the t-interval of nonlinear parameter {kk}"), g.nonlin_in[pi][kk], &mut out);
            }
            let mean_band: f64 = g.band_in[pi].iter().map(|c| *c as f64 / k).sum::<f64>() / n as f64;
            cov_rows.push(json!({"p": pv, "mean_band_coverage": mean_band}));
        }
        // reduced chi2
        if let Some(s) = d.wscale {
            let mean = g.chi2_sum / k;
            let want = s * s;
            let bound = want * (6.0 * (2.0 / (nu * k)).sqrt() + 0.002);
            out.ratio("chi2_deviation_over_bound", (mean - want).abs() / bound);
            if (mean - want).abs() > bound {
                violation(&mut out, "realisations", di as u64, format!("design '{}': mean reduced chi2 is {mean:.5} over K={} realisations, expected {want:.5} ± {bound:.5}", d.name, g.k), json!({"design": d.name, "mean": mean, "expected": want}));
            }
        }
        summary.push(json!({"design": d.name, "realisations": g.k, "failed": g.failed, "degrees_of_freedom": nu, "worst_deviation_over_bound": worst_dev, "coverage": cov_rows, "mean_reduced_chi2": g.chi2_sum / k}));
    }
    out.samples.push(summary[0].clone());
    ctx.merge_public(out);
    ctx.extra("designs", json!(summary));
}
