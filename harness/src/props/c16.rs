//! C16 — built models route parameters by name and place derivatives by parameter index

use crate::coded::*;
use crate::rng::Rng;
use crate::run::*;
use crate::sc::Sc;
use nalgebra::DVector;
use serde_json::json;
use varpro::prelude::*;

/// returns (observations, non-trivial, first problem found)
pub fn check_model<T: Sc>(rng: &mut Rng, spec: &CodedSpec, nalpha: usize) -> (u64, bool, Option<String>) {
    let np = spec.names.len();
    // pairwise distinct parameter values
    let draw = |rng: &mut Rng| -> Vec<f64> { (0..np).map(|i| 0.3 + 0.71 * i as f64 + rng.range(0.0, 0.2)).collect() };
    let a0 = draw(rng);
    let mb = Misbehave::new();
    let mut model = match build_coded::<T>(spec, &a0, &mb) {
        Ok(m) => m,
        Err(e) => return (1, false, Some(format!("valid specification rejected by the builder: {e}"))),
    };
    let xs: Vec<T> = spec.x.iter().map(|v| T::of(*v)).collect();
    let n = xs.len();
    let m = spec.funcs.len();
    let mut obs = 0;
    let nontrivial = np >= 2 && spec.funcs.iter().any(|f| f.params.len() >= 2);
    if model.parameters() != spec.names.as_slice() {
        return (1, nontrivial, Some(format!("parameters() reports {:?}, declared {:?}", model.parameters(), spec.names)));
    }
    let mut prev = a0.clone();
    for step in 0..=nalpha {
        let alpha: Vec<T> = if step == 0 {
            a0.iter().map(|v| T::of(*v)).collect()
        } else {
            let fresh = draw(rng);
            let a = crate::gen::next_alpha(rng, &prev, fresh);
            prev = a.clone();
            a.iter().map(|v| T::of(*v)).collect()
        };
        if step > 0 {
            if let Err(e) = model.set_params(DVector::from_vec(alpha.clone())) {
                return (obs, nontrivial, Some(format!("set_params rejected a vector of the right length: {e}")));
            }
            if step % 2 == 0 {
                // a vector of the wrong length is not "set on the model": the current parameter vector,
                // from which all columns below are taken, stays the one just applied
                let l = if rng.chance(0.5) { np + rng.int(1, 3) } else { np - 1 };
                let _ = model.set_params(DVector::from_vec((0..l).map(|_| T::of(rng.range(5.0, 9.0))).collect()));
            }
        }
        obs += 1;
        let back = model.params();
        if back.len() != np || back.iter().zip(&alpha).any(|(a, b)| a.bits() != b.bits()) {
            return (obs, nontrivial, Some(format!("params() returned {:?} after set_params({:?})", back.iter().map(|v| v.w()).collect::<Vec<_>>(), alpha.iter().map(|v| v.w()).collect::<Vec<_>>())));
        }
        let phi = match model.eval() {
            Ok(p) => p,
            Err(e) => return (obs, nontrivial, Some(format!("eval failed: {e}"))),
        };
        if phi.nrows() != n || phi.ncols() != m {
            return (obs, nontrivial, Some(format!("eval returned {}x{}, expected {n}x{m}", phi.nrows(), phi.ncols())));
        }
        for j in 0..m {
            let args = route::<T>(spec, j, &alpha);
            for i in 0..n {
                let want = code_value::<T>(j, xs[i], &args);
                if phi[(i, j)].bits() != want.bits() {
                    return (obs, nontrivial, Some(format!("eval column {j} (function with parameters {:?}) at row {i}: got {:e}, the function applied to its named parameters gives {:e}; model order {:?}, alpha {:?}",
                        spec.funcs[j].params, phi[(i, j)].w(), want.w(), spec.names, alpha.iter().map(|v| v.w()).collect::<Vec<_>>())));
                }
            }
        }
        for k in 0..np {
            obs += 1;
            let d = match model.eval_partial_deriv(k) {
                Ok(d) => d,
                Err(e) => return (obs, nontrivial, Some(format!("eval_partial_deriv({k}) failed: {e}"))),
            };
            if d.nrows() != n || d.ncols() != m {
                return (obs, nontrivial, Some(format!("eval_partial_deriv({k}) returned {}x{}, expected {n}x{m}", d.nrows(), d.ncols())));
            }
            for j in 0..m {
                let q = spec.funcs[j].params.iter().position(|nm| *nm == spec.names[k]);
                let args = route::<T>(spec, j, &alpha);
                for i in 0..n {
                    let got = d[(i, j)];
                    match q {
                        None => {
                            if got.w() != 0.0 {
                                return (obs, nontrivial, Some(format!("derivative {k} ({}) column {j} must be exactly zero (function does not depend on it) but is {:e}", spec.names[k], got.w())));
                            }
                        }
                        Some(q) => {
                            let want = code_deriv::<T>(j, q, xs[i], &args);
                            if got.bits() != want.bits() {
                                return (obs, nontrivial, Some(format!("derivative w.r.t. model parameter {k} ({}) column {j}: got {:e}, the derivative supplied under that name gives {:e} (function parameters {:?}, supplied in order {:?})",
                                    spec.names[k], got.w(), want.w(), spec.funcs[j].params, spec.funcs[j].deriv_order)));
                            }
                        }
                    }
                }
            }
        }
    }
    (obs, nontrivial, None)
}

fn case(rng: &mut Rng, case: u64, out: &mut CaseOut) {
    let stream = "routing";
    // every 40th model is a wide one (11..257 model parameters)
    let wide = case % 40 == 39;
    let spec = if wide { random_coded_wide(rng, 3) } else { random_coded(rng, 10, 9) };
    let nalpha = if wide { 1 } else { 5 };
    if wide {
        out.count("wide_models");
    }
    let r = if case % 3 == 0 { check_model::<f32>(rng, &spec, nalpha) } else { check_model::<f64>(rng, &spec, nalpha) };
    out.evals += r.0;
    out.seen("model_parameter_count", format!("{}", spec.names.len()));
    for f in &spec.funcs {
        out.seen("arities", format!("{}", f.params.len()));
    }
    if r.1 {
        out.nontrivial.push(crate::rng::fnv(format!("{:?}", spec).as_bytes()));
    }
    if let Some(p) = r.2 {
        violation(out, stream, case, p, json!({"names": spec.names, "functions": format!("{:?}", spec.funcs), "x": spec.x}));
    }
    if case < 3 {
        out.sample(json!({"names": spec.names, "functions": spec.funcs.iter().map(|f| json!({"params": f.params, "derivatives_supplied_in_order": f.deriv_order})).collect::<Vec<_>>()}));
    }
}

pub fn sanitizer_workload(seed: u64, cases: u64, nmax: usize, _len: usize) -> (u64, u64) {
    let mut obs = 0;
    let mut sum = 0u64;
    for c in 0..cases {
        let mut rng = Rng::keyed(seed, "C16/sanitizer", c);
        let spec = random_coded(&mut rng, 5, nmax.max(1));
        let r = if c % 2 == 0 { check_model::<f32>(&mut rng, &spec, 1) } else { check_model::<f64>(&mut rng, &spec, 1) };
        obs += r.0;
        if r.2.is_some() {
            sum += 1;
        }
    }
    (obs, sum)
}

pub fn run(ctx: &Ctx) {
    ctx.rule("generated builder specifications: model parameter lists of length 1..10 in random order, 1..5 functions of arity 1..10 over random ordered subsets (the last one covering unused parameters), derivatives supplied in random order, up to two invariant functions at random positions, N in 1..9, f32/f64, 4 parameter vectors with pairwise distinct entries per model; every 40th model is wide: 11..257 model parameters (sizes around 32/64/128/256), each used by at least one function of arity 1..10, some shared. Functions and derivatives are asymmetric position codes (sum_i (i+2)·sin((i+1)·a_i + x + j)); the oracle calls the same code with the arguments it routes by name and compares bitwise; columns of functions not depending on parameter k must be exactly zero; params() must return what was set (also after an intervening set_params with a vector of the wrong length, which is not 'set'). non-trivial = at least two model parameters and a function of arity >= 2; distinct = specification hash");
    ctx.assume("bitwise comparison is sound: the same closure evaluated on the same arguments on the same machine");
    let t = ctx.tier;
    ctx.run_cases("routing", t.pick(30000, 600000), t.pick(15.0, 900.0), case);
    if t == Tier::Thorough && ctx.replay.is_none() {
        crate::props::c17::miri_shards(ctx, "C16", 8, "40", "4");
    } else {
        ctx.extra("sanitizer_engines", json!("Miri runs in the thorough tier only"));
    }
}
