//! C09 — model failures propagate as absent values and failed fits, never as stale data.
//! Fault enumeration: a scenario is recorded fault-free (T model calls), then
//! re-run once per call index k in 0..T and per fault kind (transient,
//! persistent) with the ModelSpy failing that call. A shadow model derived from
//! the ModelSpy's call/return log predicts which quantities must be absent.

use crate::gen::*;
use crate::problem::*;
use crate::rng::Rng;
use crate::run::*;
use crate::sc::{bits_of, Sc};
use crate::spy::{Call, Event, SpyCtl};
use crate::zoo::*;
use nalgebra::DVector;
use serde_json::json;
use std::sync::atomic::Ordering::SeqCst;

#[derive(Clone)]
struct Scenario {
    spec: ProblemSpec,
    history: Vec<Vec<f64>>,
    cfg: LmCfg,
    pool: usize,
}

/// cache presence predicted from the log: the most recent parameter application
/// (SetParams) and the evaluation that follows it must both have succeeded
fn shadow_cache_present(log: &[Event]) -> Option<bool> {
    let last_set = log.iter().rposition(|e| e.call == Call::SetParams && e.ret)?;
    if !log[last_set].ok {
        return Some(false);
    }
    let ev = log[last_set..].iter().find(|e| e.call == Call::Eval && e.ret)?;
    Some(ev.ok)
}

/// fresh fault-free problem at the given parameters, for value comparison
fn fresh<T: Sc>(spec: &ProblemSpec, params: &[T]) -> Option<AnyProblem<T>> {
    let mut s = spec.clone();
    s.alpha0 = params.iter().map(|v| v.w()).collect();
    build_problem::<T>(&s, &SpyCtl::new()).ok()
}

struct Obs<'a> {
    out: &'a mut CaseOut,
    stream: &'a str,
    case: u64,
    ctx: String,
}

fn check_point<T: Sc>(o: &mut Obs, sc: &Scenario, prob: &AnyProblem<T>, ctl: &SpyCtl, where_: &str, jac_log_from: Option<usize>) {
    let log = ctl.snapshot_log();
    o.out.evals += 1;
    let res = prob.residuals();
    let coe = prob.coeffs();
    let expect = shadow_cache_present(&log);
    let mk = |what: &str| json!({"scenario": sc.spec.to_json(), "fault": o.ctx, "at": where_, "what": what});
    if let Some(mut expect) = expect {
        if expect && res.is_none() && coe.is_none() {
            // all model calls succeeded, yet no state: legitimate iff the weighted basis matrix at the
            // reported parameters is unusable (non-finite, or no finite decomposition) - C08's domain
            let params: Vec<f64> = prob.params().iter().map(|v| v.w()).collect();
            if crate::oracle::dependency_svd_error_at::<T>(&sc.spec, &params).is_none() {
                o.out.count("absent_because_basis_matrix_unusable");
                expect = false;
            }
        }
        if res.is_some() != expect || coe.is_some() != expect {
            let w = format!("{where_}: the last parameter application/evaluation {} but residuals present={} coefficients present={} [{}]",
                if expect { "succeeded" } else { "failed" }, res.is_some(), coe.is_some(), o.ctx);
            violation(o.out, o.stream, o.case, w.clone(), mk(&w));
            return;
        }
    }
    if res.is_some() != coe.is_some() {
        let w = format!("{where_}: residuals present={} but coefficients present={} [{}]", res.is_some(), coe.is_some(), o.ctx);
        violation(o.out, o.stream, o.case, w.clone(), mk(&w));
        return;
    }
    // jacobian: queried here; its derivative calls are the log entries after jac_log_from
    if let Some(from) = jac_log_from {
        let before = ctl.log_len();
        let jac = prob.jacobian();
        let log2 = ctl.snapshot_log();
        let derivs: Vec<&Event> = log2[before..].iter().filter(|e| matches!(e.call, Call::Deriv(_)) && e.ret).collect();
        let all_ok = derivs.iter().all(|e| e.ok);
        let expect_j = res.is_some() && all_ok;
        let _ = from;
        if jac.is_some() != expect_j {
            let w = format!("{where_}: jacobian present={} although cache present={} and derivative calls succeeded={} ({} calls) [{}]", jac.is_some(), res.is_some(), all_ok, derivs.len(), o.ctx);
            violation(o.out, o.stream, o.case, w.clone(), mk(&w));
            return;
        }
        if let Some(j) = &jac {
            o.out.count("jacobians_compared");
            let params: Vec<T> = prob.params().iter().cloned().collect();
            if let Some(f) = fresh::<T>(&sc.spec, &params) {
                match f.jacobian() {
                    Some(jf) if bits_of(&jf) == bits_of(j) => {}
                    _ => {
                        let w = format!("{where_}: jacobian differs from that of a fresh problem at the reported parameters [{}]", o.ctx);
                        violation(o.out, o.stream, o.case, w.clone(), mk(&w));
                    }
                }
            }
        }
    }
    if let (Some(r), Some(c)) = (&res, &coe) {
        o.out.count("present_states_compared");
        let params: Vec<T> = prob.params().iter().cloned().collect();
        match fresh::<T>(&sc.spec, &params) {
            Some(f) => {
                let fr = f.residuals();
                let fc = f.coeffs();
                let same = fr.as_ref().map(|x| bits_of(x)) == Some(bits_of(r)) && fc.as_ref().map(|x| bits_of(x)) == Some(bits_of(c));
                if !same {
                    let w = format!("{where_}: residuals/coefficients are present but are not those of the reported parameters {:?} (stale data) [{}]",
                        params.iter().map(|v| v.w()).collect::<Vec<_>>(), o.ctx);
                    violation(o.out, o.stream, o.case, w.clone(), mk(&w));
                }
            }
            None => {}
        }
    } else {
        o.out.count("absent_states_observed");
    }
}

/// scenario A: build, caller history with queries, fit. Returns the number of model calls.
fn run_a<T: Sc>(sc: &Scenario, fault: Option<(i64, bool)>, out: &mut CaseOut, stream: &str, case: u64) -> u64 {
    let ctl = SpyCtl::logging();
    let label = match fault {
        None => "fault-free".to_string(),
        Some((k, p)) => format!("{} failure at model call {k}", if p { "persistent" } else { "transient" }),
    };
    if let Some((k, p)) = fault {
        ctl.set_fault(k, p);
    }
    let mut o = Obs { out, stream, case, ctx: label.clone() };
    let mut body = || {
        let prob = build_problem::<T>(&sc.spec, &ctl);
        let mut prob = match prob {
            Ok(p) => p,
            Err(e) => {
                violation(o.out, stream, case, format!("builder rejected a valid problem under {label}: {e}"), sc.spec.to_json());
                return;
            }
        };
        check_point(&mut o, sc, &prob, &ctl, "after build", Some(0));
        for (i, a) in sc.history.iter().enumerate() {
            prob.set_params(&DVector::from_iterator(a.len(), a.iter().map(|v| T::of(*v))));
            // the problem must report either the new parameters (applied) or the previous ones (rejected)
            check_point(&mut o, sc, &prob, &ctl, &format!("after caller update {i}"), Some(0));
        }
        // fit
        let log_before = ctl.log_len();
        let cache_at_start = prob.residuals().is_some();
        let lm = sc.cfg.make::<T>();
        let fit = prob.fit(&lm);
        let log = ctl.snapshot_log();
        let seg = &log[log_before..];
        // did the optimizer encounter a failure?
        let deriv_fail = seg.iter().any(|e| matches!(e.call, Call::Deriv(_)) && e.ret && !e.ok);
        // parameter applications during the fit: (SetParams return, following Eval return)
        let set_idx: Vec<usize> = seg.iter().enumerate().filter(|(_, e)| e.call == Call::SetParams && e.ret).map(|(i, _)| i).collect();
        let mut pair_failed: Vec<bool> = Vec::new();
        for (n, &i) in set_idx.iter().enumerate() {
            let end = set_idx.get(n + 1).cloned().unwrap_or(seg.len());
            let ev = seg[i..end].iter().find(|e| e.call == Call::Eval && e.ret);
            pair_failed.push(!seg[i].ok || ev.map(|e| !e.ok).unwrap_or(true));
        }
        let non_final_failure = pair_failed.iter().rev().skip(1).any(|f| *f);
        let final_failure = pair_failed.last().cloned().unwrap_or(false);
        let encountered = !cache_at_start || deriv_fail || non_final_failure;
        o.out.evals += 1;
        o.out.seen("terminations", fit.termination().split('(').next().unwrap_or("").split(' ').next().unwrap_or("").to_string());
        if encountered {
            o.out.count("fits_where_optimizer_encountered_failure");
            if fit.is_ok() {
                let w = format!("the optimizer encountered a model failure during fit (cache at start={cache_at_start}, derivative failure={deriv_fail}, failed parameter application={non_final_failure}) but fit returned Ok [{label}]");
                violation(o.out, stream, case, w.clone(), json!({"scenario": sc.spec.to_json(), "fault": label, "termination": fit.termination()}));
            }
        } else if final_failure {
            o.out.count("fits_with_failure_at_final_reapplication");
        }
        let final_prob = fit.into_problem();
        check_point(&mut o, sc, &final_prob, &ctl, "after fit", Some(0));
    };
    if sc.pool > 0 {
        let pool = rayon::ThreadPoolBuilder::new().num_threads(sc.pool).build().unwrap();
        pool.install(body);
    } else {
        body();
    }
    ctl.calls()
}

/// scenario B: build, fit_with_statistics, accessors
fn run_b<T: Sc>(sc: &Scenario, fault: Option<(i64, bool)>, out: &mut CaseOut, stream: &str, case: u64) -> u64 {
    if sc.spec.mrhs {
        return 0;
    }
    let ctl = SpyCtl::logging();
    let label = match fault {
        None => "fault-free".to_string(),
        Some((k, p)) => format!("{} failure at model call {k} (statistics scenario)", if p { "persistent" } else { "transient" }),
    };
    if let Some((k, p)) = fault {
        ctl.set_fault(k, p);
    }
    let Ok(prob) = build_problem::<T>(&sc.spec, &ctl) else {
        violation(out, stream, case, format!("builder rejected a valid problem under {label}"), sc.spec.to_json());
        return 0;
    };
    let lm = sc.cfg.make::<T>();
    let r = prob.fit_with_statistics(&lm);
    out.evals += 1;
    let injected = ctl.n_injected.load(SeqCst);
    match r {
        Ok((fit, stats)) => {
            out.count("statistics_ok");
            let _ = stats.covariance_matrix();
            let _ = stats.confidence_band_radius(T::of(0.9));
            if injected > 0 {
                // a failure was injected somewhere: where? if during the fit the optimizer may legitimately
                // not have seen it only at the final re-application; anywhere in the statistics stage it must be Err
                let log = ctl.snapshot_log();
                let fail_idx = log.iter().position(|e| e.ret && e.injected);
                // statistics stage = everything after the last SetParams of the log
                let last_set = log.iter().rposition(|e| e.call == Call::SetParams && e.ret).unwrap_or(0);
                // skip the Eval that belongs to that parameter application
                let stage_start = log[last_set..].iter().position(|e| e.call == Call::Eval && e.ret).map(|i| last_set + i + 1).unwrap_or(last_set + 1);
                if let Some(fi) = fail_idx {
                    if fi >= stage_start {
                        violation(out, stream, case, format!("model failed while the statistics were computed but fit_with_statistics returned Ok [{label}]"), json!({"scenario": sc.spec.to_json(), "fault": label}));
                    } else {
                        violation(out, stream, case, format!("model failed during the fit yet fit_with_statistics returned Ok with statistics [{label}]"), json!({"scenario": sc.spec.to_json(), "fault": label, "termination": fit.termination()}));
                    }
                }
            }
        }
        Err(fit) => {
            out.count("statistics_err");
            let p = fit.into_problem();
            let mut o = Obs { out, stream, case, ctx: label.clone() };
            check_point(&mut o, sc, &p, &ctl, "after failed fit_with_statistics", None);
        }
    }
    ctl.calls()
}

fn scenario_case<T: Sc>(rng: &mut Rng, case: u64, out: &mut CaseOut, thorough: bool) {
    let stream = "fault-enumeration";
    // scenario kinds: builder-made Z1, hand-written Z2 (shared parameters), Z1 MRHS S=3, hand-written rejecting model
    let kind = case % 4;
    let (mspec, alpha): (ModelSpec, Vec<f64>) = match kind {
        0 | 2 => {
            let n = rng.int(8, 16);
            let x = grid(rng, n, 0.0, 6.0, false);
            (z1(x, 2, true), vec![rng.range(0.6, 1.2), rng.range(2.5, 4.0)])
        }
        1 => {
            let n = rng.int(8, 14);
            let x = grid(rng, n, 0.0, 2.5, false);
            (z2(x), vec![rng.range(0.4, 1.0), rng.range(1.0, 2.0), rng.range(2.5, 4.0)])
        }
        _ => {
            let n = rng.int(8, 14);
            let x = grid(rng, n, 0.0, 8.0, false);
            (z3(x), vec![rng.range(1.0, 2.5), rng.range(3.0, 5.0), rng.range(0.8, 1.6)])
        }
    };
    let s = if kind == 2 { 3 } else { 1 };
    let mut g = gen_problem_for(rng, &GenOpts { noise: 0.03, force_s: Some(s), ..Default::default() }, mspec.clone(), alpha.clone());
    g.spec.model = match kind {
        0 | 2 => ModelKind::Built(mspec),
        1 => ModelKind::Hand(mspec),
        _ => ModelKind::HandRejecting(mspec),
    };
    g.spec.mrhs = s > 1;
    g.spec.par = case % 8 >= 4;
    g.spec.alpha0 = perturb_alpha(rng, &alpha, 0.15);
    let mut history: Vec<Vec<f64>> = (0..6).map(|_| perturb_alpha(rng, &alpha, 0.3)).collect();
    if kind == 3 {
        // the rejecting model refuses non-finite parameter vectors and keeps the old ones
        history[2][0] = f64::NAN;
        history[4][1] = f64::INFINITY;
    }
    history[3] = history[1].clone(); // a repeated parameter vector
    let cfg = LmCfg { ftol: 1e-10, xtol: 1e-10, gtol: 0.0, stepbound: 100.0, patience: if thorough { 30 } else { 12 }, scale_diag: true, default: false };
    let pool = if g.spec.par { *rng.pick(&[1usize, 2, 4]) } else { 0 };
    let sc = Scenario { spec: g.spec, history, cfg, pool };
    out.seen("scenario_kinds", format!("{}{}{}", match kind { 0 => "Z1 builder-made", 1 => "Z2 hand-written shared-parameters", 2 => "Z1 builder-made MRHS S=3", _ => "Z3 hand-written with rejecting set_params" },
        if sc.spec.par { " parallel" } else { "" }, if T::IS_F64 { "" } else { " f32" }));
    // fault-free recordings
    let before = out.violations.len();
    let ta = run_a::<T>(&sc, None, out, stream, case);
    let tb = run_b::<T>(&sc, None, out, stream, case);
    if out.violations.len() > before {
        return;
    }
    out.add("fault_positions_total", 2 * (ta + tb));
    let mut covered = 0;
    for k in 0..ta {
        for persistent in [false, true] {
            run_a::<T>(&sc, Some((k as i64, persistent)), out, stream, case);
            covered += 1;
            out.nontrivial.push(crate::rng::hash_u64s([sc.spec.hash(), k, persistent as u64, 0]));
        }
    }
    for k in 0..tb {
        for persistent in [false, true] {
            run_b::<T>(&sc, Some((k as i64, persistent)), out, stream, case);
            covered += 1;
            out.nontrivial.push(crate::rng::hash_u64s([sc.spec.hash(), k, persistent as u64, 1]));
        }
    }
    out.add("fault_positions_covered", covered);
    if case < 4 {
        out.sample(json!({"scenario": sc.spec.to_json(), "model_calls_scenario_A": ta, "model_calls_scenario_B": tb, "history": sc.history.iter().map(|h| fmt_vec(h)).collect::<Vec<_>>()}));
    }
}

pub fn run(ctx: &Ctx) {
    ctx.rule("scenarios (Z1 builder-made, Z2 hand-written with shared parameters, Z1 MRHS S=3, Z3 hand-written whose own set_params rejects non-finite vectors; sequential and parallel in pools of 1/2/4 threads; f64 and f32): A = build, 6 caller updates (including a repeated and, for the rejecting model, non-finite vectors) each followed by residual/coefficient/Jacobian queries, complete fit; B = build, fit_with_statistics, accessors. Each scenario is recorded fault-free (T model calls) and re-run for every k in 0..T x {transient, persistent}. Presence is predicted by a shadow model over the ModelSpy call/return log; present values are compared bitwise with a fresh fault-free problem at the reported parameters. distinct = (scenario, k, kind); every faulted run is non-trivial");
    ctx.assume("'the optimizer encountered a failure' = cache absent when fit starts, or a derivative call failed, or a parameter application other than the final re-application failed (derived from the call log; the optimizer queries residuals after every trial step)");
    *ctx.exhaustive.lock().unwrap() = Some(true);
    let thorough = ctx.tier == Tier::Thorough;
    let n = ctx.tier.pick(16, 160);
    ctx.run_cases("fault-enumeration", n, ctx.tier.pick(60.0, 1800.0), |r, c, o| {
        if c % 16 >= 12 {
            scenario_case::<f32>(r, c, o, thorough)
        } else {
            scenario_case::<f64>(r, c, o, thorough)
        }
    });
}
