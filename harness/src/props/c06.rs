//! C06 — weights act as row scaling of model and data, applied exactly once
//!
//! Differential twins: problem A (model m, data Y, weights w) against problem B
//! (no weights; wrapper model returning diag(w)·Φ and diag(w)·D_k; data diag(w)·Y),
//! driven through the same α-history and compared step by step.

use crate::gen::*;
use crate::la::{self, Mat};
use crate::oracle::View;
use crate::problem::*;
use crate::rng::Rng;
use crate::run::*;
use crate::sc::{rt, widen, Sc};
use crate::spy::SpyCtl;
use crate::twin::*;
use nalgebra::DVector;
use serde_json::json;

fn prescaled<T: Sc>(spec: &ProblemSpec) -> ProblemSpec {
    let w = spec.w.clone().expect("weighted spec");
    let mut b = spec.clone();
    b.model = ModelKind::RowScaled(Box::new(spec.model.clone()), w.clone());
    // data scaled with one multiplication per element in T, exactly as `weights * Y` does
    b.y = Mat::from_fn(spec.y.r, spec.y.c, |i, j| (T::of(w[i]) * T::of(spec.y.at(i, j))).w());
    b.w = None;
    b
}

fn dnorms<T: Sc>(spec: &ProblemSpec, alpha: &[f64], w: &[f64]) -> Vec<f64> {
    (0..spec.model.np()).map(|k| spec.model.dphi64::<T>(alpha, k).row_scale(w).fro()).collect()
}

fn cond_ok<T: Sc>(v: &View) -> bool {
    v.finite() && (1e-100..=1e100).contains(&v.sigma1()) && v.sigma_min() > 64.0 * T::EPS * v.sigma1() && v.kappa() * T::EPS <= 1e-3 && v.sigma_min() > 16.0 * T::EPS
}

#[allow(clippy::too_many_arguments)]
fn compare_step<T: Sc>(out: &mut CaseOut, stream: &str, case: u64, spec: &ProblemSpec, a: &AnyProblem<T>, b: &AnyProblem<T>, what: &str, label: &str) -> bool {
    let sa = snap(a, true);
    let sb = snap(b, true);
    let alpha = sa.params.clone();
    let v = View::new::<T>(spec, &alpha);
    if !cond_ok::<T>(&v) {
        out.inconcl("ill-conditioned beyond the tolerance model / non-finite");
        return true;
    }
    out.evals += 1;
    if bit_diff(&sa, &sb).is_none() {
        out.count(&format!("{label}_bitwise_equal_steps"));
    } else {
        out.count(&format!("{label}_steps_differing_in_rounding"));
    }
    let yw = widen(&a.weighted_data());
    let dn = dnorms::<T>(spec, &alpha, &v.w);
    for s in 0..spec.s() {
        match close_ratio(&v, yw.col(s), &sa, s, &sb, s, &dn, T::EPS) {
            Ok((rc, rr, rj)) => {
                out.ratio(&format!("{label}_coefficients"), rc);
                out.ratio(&format!("{label}_residuals"), rr);
                out.ratio(&format!("{label}_jacobian"), rj);
                if !(rc <= 1.0 && rr <= 1.0 && rj <= 1.0) {
                    violation(out, stream, case, format!("{what}: twins disagree at alpha={alpha:?}, column {s}: coefficient ratio {rc:.3e}, residual ratio {rr:.3e}, jacobian ratio {rj:.3e}"),
                        json!({"problem": spec.to_json(), "alpha": alpha, "A": {"coeff": sa.coeff.as_ref().map(|m| m.d.clone()), "resid": sa.resid}, "B": {"coeff": sb.coeff.as_ref().map(|m| m.d.clone()), "resid": sb.resid}}));
                    return false;
                }
            }
            Err(e) => {
                violation(out, stream, case, format!("{what}: twins disagree at alpha={alpha:?}: {e}"), json!({"problem": spec.to_json(), "alpha": alpha}));
                return false;
            }
        }
    }
    let rn = sa.resid.as_ref().map(|r| la::norm2(r)).unwrap_or(0.0);
    if rn > 1e-3 * yw.fro() && spec.w.as_ref().map(|w| w.iter().any(|x| *x != w[0])).unwrap_or(false) {
        out.nontrivial.push(crate::rng::hash_u64s([spec.hash(), crate::rng::hash_u64s(alpha.iter().map(|a| a.to_bits()))]));
    }
    true
}

fn twin_case<T: Sc>(rng: &mut Rng, case: u64, out: &mut CaseOut) {
    let stream = "prescaled-twin";
    let g = gen_problem(rng, &GenOpts { nmax: 50, smax: 4, ..Default::default() });
    let mut spec = g.spec;
    let n = spec.y.r;
    // weight classes of the property: positive, negative, mixed, zeros, wide magnitudes
    let class = *rng.pick(&[WClass::Positive, WClass::Mixed, WClass::Zeros, WClass::Spread, WClass::Spread, WClass::Constant]);
    let keep = (spec.model.m() + spec.model.np() + 1).min(n);
    spec.w = gen_weights(rng, class, n, keep);
    if rng.chance(0.15) {
        let neg = spec.w.as_ref().unwrap().iter().map(|w| -w.abs()).collect();
        spec.w = Some(neg);
    }
    spec.alpha0 = wide_alpha(rng, &g.alpha_true);
    out.seen("weights", class.name());
    let bspec = prescaled::<T>(&spec);
    let (Ok(mut a), Ok(mut b)) = (build_problem::<T>(&spec, &SpyCtl::new()), build_problem::<T>(&bspec, &SpyCtl::new())) else {
        violation(out, stream, case, "valid problem rejected", spec.to_json());
        return;
    };
    let nsteps = rng.int(1, 6);
    for step in 0..=nsteps {
        if !compare_step(out, stream, case, &spec, &a, &b, "weighted problem vs pre-scaled unweighted problem", "prescaled") {
            return;
        }
        if step < nsteps {
            let al = wide_alpha(rng, &g.alpha_true);
            let v = DVector::from_iterator(al.len(), al.iter().map(|x| T::of(*x)));
            a.set_params(&v);
            b.set_params(&v);
        }
    }
    if case < 2 {
        out.sample(json!({"stream": stream, "problem": spec.to_json()}));
    }
}

/// rank-deficient states of the weighted problem and its pre-scaled twin
fn rankdef_case<T: Sc>(rng: &mut Rng, case: u64, out: &mut CaseOut) {
    let stream = "rank-deficient";
    let (g, hist) = gen_rank_deficient(rng, T::IS_F64, 3, 3);
    let mut spec = g.spec;
    let n = spec.y.r;
    if spec.w.is_none() {
        spec.w = gen_weights(rng, WClass::Mixed, n, n);
    }
    let thr = crate::sc::rt::<T>(spec.eps.unwrap()).abs();
    let bspec = prescaled::<T>(&spec);
    let (Ok(mut a), Ok(mut b)) = (build_problem::<T>(&spec, &SpyCtl::new()), build_problem::<T>(&bspec, &SpyCtl::new())) else {
        violation(out, stream, case, "valid problem rejected", spec.to_json());
        return;
    };
    for step in 0..=hist.len() {
        let sa = snap(&a, true);
        let sb = snap(&b, true);
        let alpha = sa.params.clone();
        let v = View::new::<T>(&spec, &alpha);
        match v.decisive_rank(thr, T::EPS) {
            Some((kept, kk)) if kept < v.m && kk * T::EPS <= 1e-3 => {
                let yw = widen(&a.weighted_data());
                let dn = dnorms::<T>(&spec, &alpha, &v.w);
                for s in 0..spec.s() {
                    out.evals += 1;
                    match close_ratio_k(&v, kk, yw.col(s), &sa, s, &sb, s, &dn, T::EPS) {
                        Ok((rc, rr, rj)) if rc <= 1.0 && rr <= 1.0 && rj <= 1.0 => out.ratio("rank_deficient_twins", rc.max(rr).max(rj)),
                        other => {
                            violation(out, stream, case, format!("rank-deficient state: weighted problem and pre-scaled twin disagree (column {s}): {other:?}"), json!({"problem": spec.to_json(), "alpha": alpha}));
                            return;
                        }
                    }
                }
                out.nontrivial.push(crate::rng::hash_u64s([spec.hash(), step as u64]));
            }
            _ => out.inconcl("rank-deficient state not decisive for the tolerance model"),
        }
        if step < hist.len() {
            let vv = DVector::from_iterator(hist[step].len(), hist[step].iter().map(|x| T::of(*x)));
            a.set_params(&vv);
            b.set_params(&vv);
        }
    }
}

/// default threshold + weights of large or tiny magnitude: the truncation must look at the weighted
/// basis matrix only. Designed model with singular values of W·Phi between 1e2·eps and 1e6·eps.
fn scaled_weights_case<T: Sc>(rng: &mut Rng, case: u64, out: &mut CaseOut) {
    let stream = "scaled-weights-default-threshold";
    let eps = T::EPS;
    let n = rng.int(3, 12);
    let m = rng.int(1, n.min(3));
    let q = la::orthonormalize(&Mat::from_fn(n, m, |_, _| rng.normal()));
    let sv: Vec<f64> = (0..m).map(|_| eps * rng.logrange(1e2, 1e6)).collect();
    let wmag = 10f64.powf(rng.range(3.0, 8.0) * rng.sign());
    let w: Vec<f64> = (0..n).map(|_| wmag * rng.range(0.5, 2.0) * rng.sign()).collect();
    let inv_w: Vec<f64> = w.iter().map(|x| 1.0 / x).collect();
    let d = crate::zoo::DesignedSpec { q, s: sv.clone(), inv_w: Some(inv_w) };
    let np = d.np();
    let alpha0: Vec<f64> = (0..np).map(|_| rng.range(-3.0, 3.0)).collect();
    let s1 = sv.iter().cloned().fold(0.0, f64::max);
    let scols = rng.int(1, 2);
    // data chosen so that W·Y is of the size of the singular values
    let y = Mat::from_fn(n, scols, |i, _| rng.normal() * s1 / w[i].abs());
    let spec = ProblemSpec { model: ModelKind::Designed(d), alpha0, y, w: Some(w), eps: None, mrhs: scols > 1, par: rng.chance(0.3) };
    let bspec = prescaled::<T>(&spec);
    let (Ok(a), Ok(b)) = (build_problem::<T>(&spec, &SpyCtl::new()), build_problem::<T>(&bspec, &SpyCtl::new())) else {
        violation(out, stream, case, "valid problem rejected", spec.to_json());
        return;
    };
    let sa = snap(&a, true);
    let sb = snap(&b, true);
    let v = View::new::<T>(&spec, &sa.params);
    out.evals += 1;
    // all singular values of W·Phi are decisively above the default threshold: both twins must keep them
    if !v.finite() || v.sigma_min() < 16.0 * eps || v.kappa() * eps > 1e-3 {
        out.inconcl("designed scaled-weights case not decisive");
        return;
    }
    out.nontrivial.push(spec.hash());
    out.seen("weight_magnitude", format!("1e{:+.0}", wmag.log10().round()));
    let yw = widen(&a.weighted_data());
    let dn = dnorms::<T>(&spec, &sa.params, &v.w);
    for s in 0..spec.s() {
        match close_ratio(&v, yw.col(s), &sa, s, &sb, s, &dn, eps) {
            Ok((rc, rr, rj)) if rc <= 1.0 && rr <= 1.0 && rj <= 1.0 => out.ratio("scaled_weights_twins", rc.max(rr).max(rj)),
            other => {
                violation(out, stream, case, format!("weights of magnitude {wmag:e} with the default threshold: weighted problem and pre-scaled twin disagree: {other:?}"),
                    json!({"problem": spec.to_json(), "singular_values_of_weighted_basis": v.sv, "A_coeff": sa.coeff.as_ref().map(|m| m.d.clone()), "B_coeff": sb.coeff.as_ref().map(|m| m.d.clone())}));
                return;
            }
        }
    }
}

fn fit_twin_case<T: Sc>(rng: &mut Rng, case: u64, out: &mut CaseOut) {
    let stream = "prescaled-fit";
    let g = gen_problem(rng, &GenOpts { nmax: 40, smax: 3, noise: 0.02, ..Default::default() });
    let mut spec = g.spec;
    let n = spec.y.r;
    let dof_ok = n > spec.model.m() + spec.model.np() + 1;
    let class = *rng.pick(&[WClass::Positive, WClass::Mixed, WClass::Zeros, WClass::Constant]);
    spec.w = gen_weights(rng, class, n, (spec.model.m() + spec.model.np() + 2).min(n));
    spec.alpha0 = perturb_alpha(rng, &g.alpha_true, 0.1);
    let bspec = prescaled::<T>(&spec);
    let cfg = LmCfg::default_cfg();
    let lm = cfg.make::<T>();
    let (Ok(a), Ok(b)) = (build_problem::<T>(&spec, &SpyCtl::new()), build_problem::<T>(&bspec, &SpyCtl::new())) else {
        violation(out, stream, case, "valid problem rejected", spec.to_json());
        return;
    };
    // spied twins give the trajectories
    let (a, ra, steps_a) = minimize_spied(&lm, a);
    let (b, rb, steps_b) = minimize_spied(&lm, b);
    out.evals += 1;
    let same_traj = steps_a.len() == steps_b.len()
        && steps_a.iter().zip(&steps_b).all(|(x, y)| x.params_after.iter().map(|v| v.bits()).eq(y.params_after.iter().map(|v| v.bits())));
    out.count(if same_traj { "fits_with_identical_trajectory" } else { "fits_with_different_trajectory" });
    let ok_a = ra.termination.was_successful();
    let ok_b = rb.termination.was_successful();
    if same_traj && format!("{:?}", ra.termination) != format!("{:?}", rb.termination) {
        violation(out, stream, case, format!("identical trajectories but different terminations: {:?} vs {:?}", ra.termination, rb.termination), spec.to_json());
        return;
    }
    if ok_a && ok_b {
        let pa: Vec<f64> = a.params().iter().map(|v| v.w()).collect();
        let pb: Vec<f64> = b.params().iter().map(|v| v.w()).collect();
        let v = View::new::<T>(&spec, &pa);
        if !cond_ok::<T>(&v) || v.kappa() > 1e5 {
            out.inconcl("fit comparison skipped: ill-conditioned");
            return;
        }
        let tol = if T::IS_F64 { 1e-6 } else { 2e-2 };
        let rel = pa.iter().zip(&pb).map(|(x, y)| (x - y).abs() / x.abs().max(1e-300)).fold(0.0, f64::max);
        out.ratio("fitted_alpha_twins", rel / tol);
        out.nontrivial.push(spec.hash());
        if rel > tol {
            violation(out, stream, case, format!("weighted fit and pre-scaled fit converge to different parameters: {pa:?} vs {pb:?}"), json!({"problem": spec.to_json()}));
            return;
        }
    } else if ok_a != ok_b {
        out.inconcl("one twin converged and the other did not (no per-step disagreement found)");
    }
    // the fit result of the weighted problem reports the *unweighted* model as its best fit (weights
    // must not leak into it), for one and for many right-hand sides
    if let Ok(a3) = build_problem::<T>(&spec, &SpyCtl::new()) {
        let fit = a3.fit(&lm);
        if fit.is_ok() {
            out.count("best_fit_of_weighted_fits_checked");
            let before = out.violations.len();
            crate::props::c02::check_best_fit::<T>(out, stream, case, &spec, &fit);
            if out.violations.len() > before {
                return;
            }
        }
    }
    // statistics twins: reduced chi2 and covariance (not the confidence band, which uses the unweighted Jacobian by definition)
    if !spec.mrhs && dof_ok {
        let (Ok(a2), Ok(b2)) = (build_problem::<T>(&spec, &SpyCtl::new()), build_problem::<T>(&bspec, &SpyCtl::new())) else { return };
        if let (Ok((fa, sa)), Ok((_fb, sb))) = (a2.fit_with_statistics(&lm), b2.fit_with_statistics(&lm)) {
            let pa: Vec<f64> = fa.nonlinear_parameters().iter().map(|v| v.w()).collect();
            let v = View::new::<T>(&spec, &pa);
            if !cond_ok::<T>(&v) || v.kappa() > 1e4 {
                out.inconcl("statistics comparison skipped: ill-conditioned");
                return;
            }
            out.evals += 1;
            let (ca, cb) = (sa.reduced_chi2().w(), sb.reduced_chi2().w());
            let tol = if T::IS_F64 { 1e-8 } else { 5e-2 };
            if ((ca - cb) / ca.abs().max(1e-300)).abs() > tol {
                violation(out, stream, case, format!("reduced chi2 differs between weighted and pre-scaled twin: {ca:e} vs {cb:e}"), json!({"problem": spec.to_json()}));
                return;
            }
            let cova = widen(sa.covariance_matrix());
            let covb = widen(sb.covariance_matrix());
            let scale = cova.max_abs().max(1e-300);
            let diff = cova.sub(&covb).max_abs() / scale;
            // H^T H has condition kappa(H)^2; H's condition is not the oracle's kappa(Phi_w) but is of that order or worse
            let h = {
                let c = widen(&fa.coeffs().unwrap());
                let mut cols = v.phi_w.clone();
                for k in 0..spec.model.np() {
                    let dk = spec.model.dphi64::<T>(&pa, k).row_scale(&v.w).mul(&c);
                    cols = Mat::from_cols(cols.r, cols.c + 1, [cols.d.clone(), dk.d.clone()].concat());
                }
                cols
            };
            let svh = la::singular_values(&h);
            let kh = svh[0] / svh.last().unwrap().max(1e-300);
            if kh * kh * T::EPS > 1e-3 {
                out.inconcl("covariance comparison skipped: normal matrix numerically singular");
                return;
            }
            let ctol = 1e4 * T::EPS * kh * kh + tol;
            out.ratio("covariance_twins", diff / ctol);
            out.count("statistics_twins_compared");
            if diff > ctol {
                violation(out, stream, case, format!("covariance matrices of weighted and pre-scaled twin differ: relative {diff:.3e} (tolerance {ctol:.3e})"), json!({"problem": spec.to_json(), "A": cova.d, "B": covb.d}));
            }
        }
    }
}

/// unit weights are equivalent to supplying no weights (numerically equal outputs)
fn unit_case<T: Sc>(rng: &mut Rng, case: u64, out: &mut CaseOut) {
    let stream = "unit-vs-none";
    let g = gen_problem(rng, &GenOpts { nmax: 40, smax: 3, ..Default::default() });
    let mut a_spec = g.spec;
    a_spec.w = None;
    a_spec.alpha0 = wide_alpha(rng, &g.alpha_true);
    let mut b_spec = a_spec.clone();
    b_spec.w = Some(vec![1.0; a_spec.y.r]);
    let (Ok(mut a), Ok(mut b)) = (build_problem::<T>(&a_spec, &SpyCtl::new()), build_problem::<T>(&b_spec, &SpyCtl::new())) else {
        violation(out, stream, case, "valid problem rejected", a_spec.to_json());
        return;
    };
    for step in 0..3 {
        out.evals += 1;
        out.nontrivial.push(crate::rng::hash_u64s([a_spec.hash(), step]));
        if let Some(d) = num_equal(&snap(&a, true), &snap(&b, true)) {
            violation(out, stream, case, format!("unit weights and no weights give different results: {d}"), json!({"problem": a_spec.to_json()}));
            return;
        }
        let al = wide_alpha(rng, &g.alpha_true);
        let v = DVector::from_iterator(al.len(), al.iter().map(|x| T::of(*x)));
        a.set_params(&v);
        b.set_params(&v);
    }
    // fits
    let lm = LmCfg::random(rng).make::<T>();
    let fa = a.fit(&lm);
    let fb = b.fit(&lm);
    out.evals += 1;
    if fa.termination() != fb.termination() || fa.problem_params().iter().map(|v| v.bits()).ne(fb.problem_params().iter().map(|v| v.bits())) {
        violation(out, stream, case, format!("fits with unit weights and without weights differ: {} vs {}", fa.termination(), fb.termination()), json!({"problem": a_spec.to_json()}));
    }
}

/// a weight of zero removes the influence of that sample
fn zero_case<T: Sc>(rng: &mut Rng, case: u64, out: &mut CaseOut) {
    let stream = "zero-weights";
    let g = gen_problem(rng, &GenOpts { nmax: 40, smax: 3, ..Default::default() });
    let mut spec = g.spec;
    let n = spec.y.r;
    let keep = (spec.model.m() + spec.model.np() + 1).min(n);
    if keep >= n {
        out.inconcl("too few rows to zero one");
        return;
    }
    spec.w = gen_weights(rng, WClass::Zeros, n, keep);
    spec.alpha0 = wide_alpha(rng, &g.alpha_true);
    let w = spec.w.clone().unwrap();
    let zeros: Vec<usize> = (0..n).filter(|i| w[*i] == 0.0).collect();
    if zeros.is_empty() {
        out.inconcl("no zero weight drawn");
        return;
    }
    // (i) other finite data at the zero-weight rows: every output numerically equal
    let mut spec2 = spec.clone();
    for &i in &zeros {
        for s in 0..spec.y.c {
            spec2.y.set(i, s, rng.normal() * 10f64.powf(rng.range(-2.0, 3.0)));
        }
    }
    let (Ok(mut a), Ok(mut b)) = (build_problem::<T>(&spec, &SpyCtl::new()), build_problem::<T>(&spec2, &SpyCtl::new())) else {
        violation(out, stream, case, "valid problem rejected", spec.to_json());
        return;
    };
    // (ii) the problem with those rows removed
    let keep_rows: Vec<usize> = (0..n).filter(|i| w[*i] != 0.0).collect();
    let mut spec3 = spec.clone();
    if let Some(ms) = spec.model.spec() {
        let mut m3 = ms.clone();
        m3.x = keep_rows.iter().map(|i| ms.x[*i]).collect();
        spec3.model = match &spec.model {
            ModelKind::Built(_) => ModelKind::Built(m3),
            _ => ModelKind::Hand(m3),
        };
    }
    spec3.y = Mat::from_fn(keep_rows.len(), spec.y.c, |i, j| spec.y.at(keep_rows[i], j));
    spec3.w = Some(keep_rows.iter().map(|i| w[*i]).collect());
    let Ok(mut c) = build_problem::<T>(&spec3, &SpyCtl::new()) else {
        violation(out, stream, case, "valid reduced problem rejected", spec3.to_json());
        return;
    };
    for step in 0..3 {
        out.evals += 1;
        let sa = snap(&a, true);
        let sb = snap(&b, true);
        out.nontrivial.push(crate::rng::hash_u64s([spec.hash(), step]));
        if let Some(d) = num_equal(&sa, &sb) {
            violation(out, stream, case, format!("changing the data of a zero-weight sample changed an output: {d}"), json!({"problem": spec.to_json(), "zero_rows": zeros}));
            return;
        }
        // rows removed: coefficients within tolerance
        let sc = snap(&c, false);
        let alpha = sa.params.clone();
        let v = View::new::<T>(&spec, &alpha);
        if cond_ok::<T>(&v) {
            if let (Some(ca), Some(cc)) = (&sa.coeff, &sc.coeff) {
                let yw = widen(&a.weighted_data());
                for s in 0..spec.s() {
                    let rn = sa.resid.as_ref().map(|r| la::norm2(&r[s * n..(s + 1) * n])).unwrap_or(0.0);
                    let dc: Vec<f64> = (0..v.m).map(|i| ca.at(i, s) - cc.at(i, s)).collect();
                    let kappa = v.kappa();
                    let tol = TAU_TWIN * T::EPS * (kappa * la::norm2(ca.col(s)) + kappa * kappa * rn / v.sigma1() + kappa * la::norm2(yw.col(s)) / v.sigma1());
                    let ratio = la::norm2(&dc) / tol.max(f64::MIN_POSITIVE);
                    if ratio <= 1.0 {
                        out.ratio("rows_removed_coefficients", ratio);
                    } else {
                        // the two twins decompose *different* matrices here (zero rows vs removed rows): an
                        // inaccurate decomposition of either one (KF-1) explains a disagreement
                        let e1 = crate::oracle::dependency_svd_error_at::<T>(&spec, &alpha).unwrap_or(f64::INFINITY);
                        let e2 = crate::oracle::dependency_svd_error_at::<T>(&spec3, &alpha).unwrap_or(f64::INFINITY);
                        let e = e1.max(e2);
                        let adj = ratio * T::EPS / (T::EPS + e);
                        if e > crate::oracle::KF1_MIN_E * T::EPS && adj <= 1.0 {
                            out.known.push(KnownHit { stream: stream.into(), case, signature: "KF-1:svd-reconstruction-error".into(),
                                what: format!("coefficients with zero-weight rows vs rows removed differ (ratio {ratio:.3e}), explained by the measured SVD reconstruction error e={e:.3e}"),
                                detail: json!({"problem": spec.to_json(), "alpha": alpha, "e": e}) });
                        } else {
                            violation(out, stream, case, format!("removing zero-weight samples changes the coefficients: ratio {ratio:.3e} (dependency SVD error {e:.2e})"), json!({"problem": spec.to_json(), "alpha": alpha}));
                            return;
                        }
                    }
                }
            }
        }
        let al = wide_alpha(rng, &g.alpha_true);
        let vv = DVector::from_iterator(al.len(), al.iter().map(|x| T::of(*x)));
        a.set_params(&vv);
        b.set_params(&vv);
        c.set_params(&vv);
    }
    let _ = rt::<T>(0.0);
}

pub fn run(ctx: &Ctx) {
    ctx.rule("prescaled-twin: weighted problem A vs unweighted problem B over the wrapper model diag(w)·Phi, diag(w)·D_k and data diag(w)·Y, same alpha-history (1..6 wide updates), compared per step and per column in coefficients, residuals and Jacobian with kappa-scaled tolerances (bitwise agreement recorded); weight classes positive / negative / mixed sign / with zeros / spread over up to six decades. prescaled-fit: both twins fitted with the same optimizer (trajectories, terminations, fitted alpha, reduced chi2, covariance). unit-vs-none: outputs numerically equal. zero-weights: other data at zero-weight rows leave every output numerically equal; rows removed give the same coefficients. non-trivial = residual > 1e-3 |Y_w| and non-constant weights; distinct = (problem, alpha)");
    ctx.assume("the confidence band is deliberately not compared between twins (it uses the unweighted Jacobian by definition)");
    let t = ctx.tier;
    let b = t.pick(30.0, 900.0);
    ctx.run_cases("prescaled-twin", t.pick(6000, 320000), b, |r, c, o| if c % 3 == 0 { twin_case::<f32>(r, c, o) } else { twin_case::<f64>(r, c, o) });
    ctx.run_cases("rank-deficient", t.pick(2000, 64000), b, |r, c, o| if c % 3 == 0 { rankdef_case::<f32>(r, c, o) } else { rankdef_case::<f64>(r, c, o) });
    ctx.run_cases("scaled-weights-default-threshold", t.pick(3000, 96000), b, |r, c, o| if c % 3 == 0 { scaled_weights_case::<f32>(r, c, o) } else { scaled_weights_case::<f64>(r, c, o) });
    ctx.run_cases("prescaled-fit", t.pick(2500, 80000), b, |r, c, o| if c % 4 == 0 { fit_twin_case::<f32>(r, c, o) } else { fit_twin_case::<f64>(r, c, o) });
    ctx.run_cases("unit-vs-none", t.pick(1500, 64000), b, |r, c, o| if c % 3 == 0 { unit_case::<f32>(r, c, o) } else { unit_case::<f64>(r, c, o) });
    ctx.run_cases("zero-weights", t.pick(2000, 80000), b, |r, c, o| if c % 3 == 0 { zero_case::<f32>(r, c, o) } else { zero_case::<f64>(r, c, o) });
}
