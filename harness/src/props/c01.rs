//! C01 — linear coefficients are the weighted least-squares optimum for the current α

use crate::gen::*;
use crate::la::{self, Mat};
use crate::oracle::*;
use crate::problem::*;
use crate::rng::Rng;
use crate::run::*;
use crate::sc::{widen, Sc};
use crate::spy::SpyCtl;
use crate::zoo::*;
use nalgebra::DVector;
use serde_json::json;

/// Evaluate the C01 oracle on one state. `thr` is the singular-value threshold in effect.
#[allow(clippy::too_many_arguments)]
pub fn check_state<T: Sc>(
    out: &mut CaseOut,
    stream: &str,
    case: u64,
    spec: &ProblemSpec,
    yw: &Mat,
    alpha: &[f64],
    coeff: &Mat,
    thr: f64,
    whence: &str,
) {
    let v = View::new::<T>(spec, alpha);
    if !v.finite() {
        out.inconcl("non-finite basis matrix (outside the property's domain)");
        return;
    }
    out.evals += 1;
    if coeff.r != v.m || coeff.c != spec.s() {
        violation(out, stream, case, format!("coefficient matrix has shape {}x{}, expected {}x{} ({whence})", coeff.r, coeff.c, v.m, spec.s()),
            json!({"problem": spec.to_json(), "alpha": alpha}));
        return;
    }
    if !coeff.all_finite() {
        violation(out, stream, case, format!("non-finite coefficient reported for a finite basis matrix ({whence})"),
            json!({"problem": spec.to_json(), "alpha": alpha, "coeff": fmt_vec(&coeff.d)}));
        return;
    }
    let eps = T::EPS;
    if !(1e-140..=1e140).contains(&v.sigma1()) {
        if v.sigma1() == 0.0 {
            // Φ_w = 0: every singular value counts as zero, the minimum-norm minimiser is 0
            if coeff.max_abs() != 0.0 {
                violation(out, stream, case, format!("weighted basis matrix is zero but coefficients are non-zero ({whence})"), json!({"problem": spec.to_json(), "alpha": alpha, "coeff": coeff.d}));
            }
            return;
        }
        out.inconcl("extreme scale: the oracle's f64 arithmetic would over/underflow");
        return;
    }
    // classify singular values against the threshold. `noise` is the level below which no
    // backward-stable decomposition can resolve a singular value; such values may legitimately be
    // kept or dropped, and the (kappa-free) normal-equation certificate holds either way.
    let noise = 8.0 * eps * v.sigma1() * ((v.n * v.m) as f64).sqrt();
    let decisive = 64.0 * noise <= thr;
    let (near, must_drop, kept, unresolvable) = if decisive {
        // the threshold lies above the noise floor: every singular value is classifiable
        let near = v.sv.iter().any(|s| *s > thr / 8.0 && *s < thr * 8.0);
        let must_drop = v.sv.iter().filter(|s| **s <= thr / 8.0).count();
        (near, must_drop, v.sv.len() - must_drop, 0)
    } else {
        // the threshold lies inside the noise floor: values below the floor may go either way
        let near = v.sv.iter().any(|s| *s > noise && *s < thr * 8.0);
        let kept = v.sv.iter().filter(|s| **s > noise).count();
        (near, 0, kept, v.sv.len() - kept)
    };
    if near {
        out.inconcl("a resolvable singular value lies within a factor 8 of the threshold");
        return;
    }
    let resid = yw.sub(&v.phi_w.mul(coeff));
    let nontrivial = resid.fro() > 1e-3 * yw.fro() && (spec.s() > 1 || spec.w.as_ref().map(|w| w.iter().any(|x| *x != w[0])).unwrap_or(false));
    if nontrivial {
        out.nontrivial.push(crate::rng::hash_u64s([spec.hash(), crate::rng::hash_u64s(alpha.iter().map(|a| a.to_bits()))]));
    }
    if must_drop == 0 {
        out.count("full_rank_states");
        if unresolvable > 0 {
            out.count("states_with_unresolvable_singular_values");
        }
        let ratio = normal_eq_ratio(&v, yw, coeff, eps, 0.0);
        if ratio <= 1.0 {
            out.ratio("normal_eq", ratio);
            return;
        }
        // strict certificate failed: dependency-error triage (DESIGN §3.4, KF-1)
        out.count("strict_certificate_failures");
        let e = dependency_svd_error_at::<T>(spec, alpha);
        match e {
            Some(e) if e > KF1_MIN_E * eps => {
                let adj = normal_eq_ratio(&v, yw, coeff, eps, e);
                if adj <= 1.0 {
                    out.ratio("normal_eq_adjusted_kf1", adj);
                    out.known.push(KnownHit {
                        stream: stream.into(),
                        case,
                        signature: "KF-1:svd-reconstruction-error".into(),
                        what: format!("strict normal-equation certificate ratio {ratio:.3e}, explained by measured SVD reconstruction error e={e:.3e} ({:.0} eps), adjusted ratio {adj:.3}", e / eps),
                        detail: json!({"problem": spec.to_json(), "alpha": alpha, "e": e, "strict_ratio": ratio, "adjusted_ratio": adj, "whence": whence}),
                    });
                    return;
                }
                violation(out, stream, case, format!("coefficients are not the least-squares optimum ({whence}): normal-equation ratio {ratio:.3e}, not explained by the dependency's SVD error e={e:.3e} (adjusted ratio {adj:.3e})"),
                    json!({"problem": spec.to_json(), "alpha": alpha, "coeff": coeff.d, "ratio": ratio, "e": e, "adjusted": adj, "sv": v.sv}));
            }
            _ => {
                violation(out, stream, case, format!("coefficients are not the least-squares optimum ({whence}): normal-equation ratio {ratio:.3e} with an accurate decomposition (e={:?})", e),
                    json!({"problem": spec.to_json(), "alpha": alpha, "coeff": coeff.d, "ratio": ratio, "e": e, "sv": v.sv}));
            }
        }
    } else {
        out.count("rank_deficient_states");
        if kept == 0 {
            // every singular value counts as zero: minimum-norm minimiser is 0
            let mx = coeff.max_abs();
            if mx != 0.0 {
                violation(out, stream, case, format!("all singular values are below the threshold but coefficients are non-zero ({whence})"),
                    json!({"problem": spec.to_json(), "alpha": alpha, "coeff": coeff.d, "sv": v.sv, "thr": thr}));
            }
            return;
        }
        let ratio = coeff_reference_ratio(&v, yw, coeff, eps, kept, thr);
        if ratio <= 1.0 {
            out.ratio("truncated_reference", ratio);
            return;
        }
        out.count("strict_certificate_failures");
        let e = dependency_svd_error_at::<T>(spec, alpha);
        if let Some(e) = e {
            if e > KF1_MIN_E * eps {
                let adj = coeff_reference_ratio(&v, yw, coeff, eps + e, kept, thr);
                if adj <= 1.0 {
                    out.ratio("truncated_reference_adjusted_kf1", adj);
                    out.known.push(KnownHit {
                        stream: stream.into(),
                        case,
                        signature: "KF-1:svd-reconstruction-error".into(),
                        what: format!("truncated-reference ratio {ratio:.3e}, explained by measured SVD reconstruction error e={e:.3e} ({:.0} eps), adjusted ratio {adj:.3}", e / eps),
                        detail: json!({"problem": spec.to_json(), "alpha": alpha, "e": e, "strict_ratio": ratio, "adjusted_ratio": adj, "whence": whence}),
                    });
                    return;
                }
            }
        }
        {
            let ratio = format!("{ratio:.3e} (dependency SVD reconstruction error e={e:?})");
            violation(out, stream, case, format!("rank-deficient state ({whence}): coefficients differ from the truncated minimum-norm solution, ratio {ratio} (kept {kept} of {} singular values, threshold {thr:e})", v.m),
                json!({"problem": spec.to_json(), "alpha": alpha, "coeff": coeff.d, "sv": v.sv, "thr": thr, "ratio": ratio}));
        }
    }
}

fn default_thr<T: Sc>(spec: &ProblemSpec) -> f64 {
    spec.eps.map(|e| crate::sc::rt::<T>(e).abs()).unwrap_or(T::EPS)
}

fn states_case<T: Sc>(rng: &mut Rng, case: u64, out: &mut CaseOut) {
    let stream = "states";
    let g = gen_problem(rng, &GenOpts { nmax: if T::IS_F64 { 120 } else { 40 }, smax: 7, ..Default::default() });
    let mut spec = g.spec;
    spec.alpha0 = wide_alpha(rng, &g.alpha_true);
    let mut prob = match build_problem_auto::<T>(&spec) {
        Ok(p) => p,
        Err(e) => {
            violation(out, stream, case, format!("valid problem rejected by the builder: {e}"), spec.to_json());
            return;
        }
    };
    out.seen("flavour", format!("{}{}", if spec.mrhs { "mrhs" } else { "single" }, if spec.par { "+parallel" } else { "" }));
    out.seen("model_kind", prob.model_kind());
    out.seen("weights", g.wclass.name());
    out.seen("scalar", T::NAME);
    let thr = default_thr::<T>(&spec);
    let nsteps = rng.int(1, 5);
    for step in 0..=nsteps {
        let alpha: Vec<f64> = prob.params().iter().map(|v| v.w()).collect();
        match prob.coeffs() {
            Some(c) => check_state::<T>(out, stream, case, &spec, &widen(&prob.weighted_data()), &alpha, &widen(&c), thr, if step == 0 { "after build" } else { "after set_params" }),
            None => {
                let v = View::new::<T>(&spec, &alpha);
                if v.finite() && !(1e-140..=1e140).contains(&v.sigma1()) && v.sigma1() != 0.0 && dependency_svd_error_at::<T>(&spec, &alpha).is_none() {
                    // finite entries whose squares over/underflow: the decomposition itself is unusable
                    // (non-finite factors, D9) and nothing is reported; neither side can be judged here
                    out.inconcl("extreme scale: no state is reported because the decomposition is unusable");
                } else if v.finite() {
                    out.evals += 1;
                    violation(out, stream, case, "model evaluates to a finite matrix but no coefficients are reported", json!({"problem": spec.to_json(), "alpha": alpha}));
                }
            }
        }
        if step < nsteps {
            let fresh = wide_alpha(rng, &g.alpha_true);
            let a = next_alpha(rng, &alpha, fresh);
            prob.set_params(&DVector::from_iterator(a.len(), a.iter().map(|v| T::of(*v))));
        }
    }
    if case < 2 {
        out.sample(json!({"stream": stream, "problem": spec.to_json(), "steps": nsteps}));
    }
}

/// states visited by the optimizer during a fit, observed by the ProblemSpy
fn fit_case<T: Sc>(rng: &mut Rng, case: u64, out: &mut CaseOut) {
    let stream = "fit-trajectories";
    let g = gen_problem(rng, &GenOpts { nmax: 50, smax: 4, ..Default::default() });
    let mut spec = g.spec;
    spec.alpha0 = perturb_alpha(rng, &g.alpha_true, 0.25);
    let prob = match build_problem_auto::<T>(&spec) {
        Ok(p) => p,
        Err(e) => {
            violation(out, stream, case, format!("valid problem rejected by the builder: {e}"), spec.to_json());
            return;
        }
    };
    let cfg = LmCfg::random(rng);
    let lm = cfg.make::<T>();
    let (prob, _report, steps) = minimize_spied(&lm, prob);
    let yw = widen(&prob.weighted_data());
    let thr = default_thr::<T>(&spec);
    out.add("optimizer_steps_observed", steps.len() as u64);
    for (i, st) in steps.iter().enumerate() {
        let alpha: Vec<f64> = st.params_after.iter().map(|v| v.w()).collect();
        if let Some(c) = &st.coeff {
            check_state::<T>(out, stream, case, &spec, &yw, &alpha, &widen(c), thr, &format!("optimizer step {i}"));
        }
    }
    drop(prob);
    if case < 1 {
        out.sample(json!({"stream": stream, "problem": spec.to_json(), "optimizer": cfg.to_json(), "steps": steps.len()}));
    }
}

/// Z5/Z6: singular values known by construction, placed decisively on either side of the threshold
fn designed_case<T: Sc>(rng: &mut Rng, case: u64, out: &mut CaseOut) {
    let stream = "designed-rank";
    let eps_t = T::EPS;
    let n = rng.int(2, 24);
    let m = rng.int(1, n.min(6));
    let q = la::orthonormalize(&Mat::from_fn(n, m, |_, _| rng.normal()));
    // threshold: default (machine eps, needs tiny-valued Φ) or user-chosen, sign random
    let user = rng.chance(0.7);
    let (thr_abs, eps_arg, sigma_top) = if user {
        let t = 10f64.powf(rng.range(-9.0, -1.0)).max(1e4 * eps_t);
        let t = crate::sc::rt::<T>(t);
        (t, Some(t * rng.sign()), 1.0)
    } else {
        (eps_t, None, 1e3 * eps_t)
    };
    // singular values: top one at sigma_top·[1,10], others kept (≥ 16 thr) or dropped (≤ thr/16)
    let mut s = Vec::new();
    let mut ndrop = 0;
    for j in 0..m {
        let keep = j == 0 || rng.chance(0.5);
        if keep {
            let lo = (16.0 * thr_abs).max(1e-3 * sigma_top);
            s.push(rng.logrange(lo, lo.max(sigma_top) * 10.0));
        } else {
            ndrop += 1;
            s.push(if rng.chance(0.3) { 0.0 } else { thr_abs / 16.0 * rng.logrange(1e-4, 1.0) });
        }
    }
    // dropped values must be decisively below thr even after the rounding of Φ (≈ ε·σ₁)
    let s1 = s.iter().cloned().fold(0.0, f64::max);
    if 64.0 * eps_t * s1 * (n as f64).sqrt() > thr_abs / 16.0 && ndrop > 0 {
        // rounding of Φ could lift a dropped singular value towards the threshold: shrink the top
        let f = (thr_abs / 16.0) / (64.0 * eps_t * s1 * (n as f64).sqrt());
        for v in s.iter_mut() {
            if *v > 16.0 * thr_abs {
                *v = (*v * f).max(16.0 * thr_abs);
            }
        }
    }
    rng.shuffle(&mut s);
    let d = DesignedSpec { q, s: s.clone(), inv_w: None };
    let np = d.np();
    let alpha0: Vec<f64> = (0..np).map(|_| rng.range(-3.0, 3.0)).collect();
    let scols = rng.int(1, 3);
    let ymag = s1.max(thr_abs);
    let y = Mat::from_fn(n, scols, |_, _| rng.normal() * ymag);
    let w = if rng.chance(0.3) { Some(vec![*rng.pick(&[1.0, -1.0, 2.0, 0.5]); n]) } else { None };
    let spec = ProblemSpec { model: ModelKind::Designed(d), alpha0: alpha0.clone(), y, w, eps: eps_arg, mrhs: scols > 1 || rng.chance(0.3), par: rng.chance(0.3) };
    let mut prob = match build_problem_auto::<T>(&spec) {
        Ok(p) => p,
        Err(e) => {
            violation(out, stream, case, format!("valid problem rejected by the builder: {e}"), spec.to_json());
            return;
        }
    };
    out.seen("designed_threshold", if user { if eps_arg.unwrap() < 0.0 { "user-negative" } else { "user-positive" } } else { "default" });
    for step in 0..3 {
        let alpha: Vec<f64> = prob.params().iter().map(|v| v.w()).collect();
        match prob.coeffs() {
            Some(c) => {
                let before = out.violations.len();
                check_state::<T>(out, stream, case, &spec, &widen(&prob.weighted_data()), &alpha, &widen(&c), thr_abs, "designed singular values");
                if ndrop > 0 && out.violations.len() == before {
                    out.count("designed_rank_deficient_checked");
                }
            }
            None => {
                out.evals += 1;
                violation(out, stream, case, "finite designed basis matrix but no coefficients", json!({"problem": spec.to_json()}));
            }
        }
        if step < 2 {
            let a: Vec<f64> = (0..np).map(|_| rng.range(-3.0, 3.0)).collect();
            prob.set_params(&DVector::from_iterator(np, a.iter().map(|v| T::of(*v))));
        }
    }
    if case < 1 {
        out.sample(json!({"stream": stream, "singular_values": s, "threshold": thr_abs, "user_eps": eps_arg}));
    }
}

/// Z6: exact boundary "at or below the threshold"
fn boundary_case<T: Sc>(rng: &mut Rng, case: u64, out: &mut CaseOut) {
    let stream = "threshold-boundary";
    let n = rng.int(2, 9);
    let row = rng.below(n);
    let sval = crate::sc::rt::<T>(rng.logrange(1e-6, 1e3));
    // next representable value below sval in T
    let below = if T::IS_F64 { f64::from_bits(sval.to_bits() - 1) } else { f32::from_bits((sval as f32).to_bits() - 1) as f64 };
    let y = Mat::from_fn(n, 1, |_, _| rng.range(0.5, 2.0) * rng.sign());
    for (eps_arg, expect_zero) in [(sval, true), (-sval, true), (below, false), (-below, false)] {
        let spec = ProblemSpec { model: ModelKind::OneCol { n, row }, alpha0: vec![sval], y: y.clone(), w: None, eps: Some(eps_arg), mrhs: false, par: false };
        let prob = match build_problem_auto::<T>(&spec) {
            Ok(p) => p,
            Err(e) => {
                violation(out, stream, case, format!("valid problem rejected: {e}"), spec.to_json());
                return;
            }
        };
        out.evals += 1;
        let c = prob.coeffs().map(|c| c[(0, 0)].w());
        let want = if expect_zero { 0.0 } else { (T::of(crate::sc::rt::<T>(y.at(row, 0))) / T::of(sval)).w() };
        out.nontrivial.push(crate::rng::hash_u64s([sval.to_bits(), eps_arg.to_bits(), n as u64]));
        match c {
            Some(c) if (c - want).abs() <= 16.0 * T::EPS * want.abs() => {}
            other => violation(out, stream, case, format!("singular value {sval:e} with threshold {eps_arg:e}: coefficient {:?}, expected {want:e}", other),
                json!({"problem": spec.to_json(), "got": other, "want": want})),
        }
    }
    if case < 1 {
        out.sample(json!({"stream": stream, "singular_value": sval, "thresholds": [sval, -sval, below, -below]}));
    }
}

/// duplicated decays: natural rank deficiency with a user threshold; minimum-norm split c1 = c2
fn duplicate_case<T: Sc>(rng: &mut Rng, case: u64, out: &mut CaseOut) {
    let stream = "duplicate-columns";
    let n = rng.int(6, 30);
    let x = grid_r(rng, n, 0.0, 2.0, 6.0, 0.0);
    let offset = rng.chance(0.5);
    let spec_m = z1(x, 2, offset);
    let tau = rng.range(0.5, 3.0);
    let alpha = vec![tau, tau];
    let m = spec_m.m();
    let phi = spec_m.phi64::<T>(&alpha);
    let ctrue = Mat::from_fn(m, 1, |_, _| rng.range(0.5, 3.0));
    let mut y = phi.mul(&ctrue);
    for i in 0..n {
        let v = y.at(i, 0) + 0.05 * rng.range(-1.0, 1.0);
        y.set(i, 0, v);
    }
    let thr = crate::sc::rt::<T>(if T::IS_F64 { 1e-8 } else { 1e-3 });
    let spec = ProblemSpec { model: if rng.chance(0.5) { ModelKind::Built(spec_m) } else { ModelKind::Hand(spec_m) }, alpha0: alpha.clone(), y, w: gen_weights(rng, WClass::Positive, n, n), eps: Some(thr), mrhs: false, par: rng.chance(0.3) };
    let prob = match build_problem_auto::<T>(&spec) {
        Ok(p) => p,
        Err(e) => {
            violation(out, stream, case, format!("valid problem rejected: {e}"), spec.to_json());
            return;
        }
    };
    out.evals += 1;
    match prob.coeffs() {
        None => violation(out, stream, case, "no coefficients for duplicated (finite) basis functions", spec.to_json()),
        Some(c) => {
            let c = widen(&c);
            out.nontrivial.push(spec.hash());
            if !c.all_finite() {
                violation(out, stream, case, "non-finite coefficients for duplicated basis functions", json!({"problem": spec.to_json(), "coeff": fmt_vec(&c.d)}));
                return;
            }
            let scale = c.max_abs().max(1e-300);
            if (c.at(0, 0) - c.at(1, 0)).abs() > 1e4 * T::EPS * scale / thr.min(1.0).max(1e-3) {
                violation(out, stream, case, format!("minimum-norm solution must split equally between identical columns: c0={}, c1={}", c.at(0, 0), c.at(1, 0)), json!({"problem": spec.to_json(), "coeff": c.d}));
            }
            check_state::<T>(out, stream, case, &spec, &widen(&prob.weighted_data()), &alpha, &c, thr, "duplicated columns");
        }
    }
}

/// the coefficients depend linearly on the observations
fn linearity_case<T: Sc>(rng: &mut Rng, case: u64, out: &mut CaseOut) {
    let stream = "linearity";
    let g = gen_problem(rng, &GenOpts { nmax: 40, force_s: Some(2), ..Default::default() });
    let mut spec = g.spec;
    let (a, b) = (rng.range(-3.0, 3.0), rng.range(-3.0, 3.0));
    let n = spec.y.r;
    // third column a·y1 + b·y2 formed in T so that the data themselves are exactly linear up to one rounding
    let y3: Vec<f64> = (0..n).map(|i| a * crate::sc::rt::<T>(spec.y.at(i, 0)) + b * crate::sc::rt::<T>(spec.y.at(i, 1))).collect();
    let mut y = Mat::zeros(n, 3);
    for i in 0..n {
        y.set(i, 0, spec.y.at(i, 0));
        y.set(i, 1, spec.y.at(i, 1));
        y.set(i, 2, y3[i]);
    }
    spec.y = y;
    spec.mrhs = true;
    spec.alpha0 = wide_alpha(rng, &g.alpha_true);
    let prob = match build_problem_auto::<T>(&spec) {
        Ok(p) => p,
        Err(e) => {
            violation(out, stream, case, format!("valid problem rejected: {e}"), spec.to_json());
            return;
        }
    };
    let v = View::new::<T>(&spec, &spec.alpha0);
    if !v.finite() {
        out.inconcl("non-finite basis");
        return;
    }
    let thr = T::EPS;
    if v.sigma_min() < 16.0 * thr {
        out.inconcl("near-threshold singular value in linearity check");
        return;
    }
    let kappa = v.kappa();
    if kappa * T::EPS > 1e-3 {
        out.inconcl("ill-conditioned beyond the tolerance model");
        return;
    }
    let Some(c) = prob.coeffs() else {
        out.evals += 1;
        violation(out, stream, case, "no coefficients for finite basis", spec.to_json());
        return;
    };
    let c = widen(&c);
    out.evals += 1;
    out.nontrivial.push(spec.hash());
    let yw = widen(&prob.weighted_data());
    let r = yw.sub(&v.phi_w.mul(&c));
    let dc: Vec<f64> = (0..v.m).map(|i| c.at(i, 2) - (a * c.at(i, 0) + b * c.at(i, 1))).collect();
    let cn = a.abs() * la::norm2(c.col(0)) + b.abs() * la::norm2(c.col(1)) + la::norm2(c.col(2));
    let rn = a.abs() * la::norm2(r.col(0)) + b.abs() * la::norm2(r.col(1)) + la::norm2(r.col(2));
    // the data are linear only up to one rounding of y3: adds κ/σ₁·ε‖y3‖
    let tol = TAU_COEFF * T::EPS * (kappa * cn + kappa * kappa * rn / v.sigma1() + kappa / v.sigma1() * la::norm2(yw.col(2)));
    let ratio = la::norm2(&dc) / tol.max(f64::MIN_POSITIVE);
    if ratio <= 1.0 {
        out.ratio("linearity", ratio);
        return;
    }
    let e = dependency_svd_error_of(&prob);
    if let Some(e) = e {
        if e > KF1_MIN_E * T::EPS {
            out.inconcl("linearity failure next to an inaccurate dependency SVD (see KF-1)");
            return;
        }
    }
    violation(out, stream, case, format!("coefficients are not linear in the observations: ratio {ratio:.3e}"),
        json!({"problem": spec.to_json(), "a": a, "b": b, "coeff": c.d, "ratio": ratio, "kappa": kappa}));
}

/// KF-1 witnesses: fixed graded matrices (independent of VERIF_SEED) on which the dependency's
/// SVD is inaccurate; replayed on every run and reported as KNOWN-FINDING while they still fail.
/// exactly tied singular values: orthogonal basis functions of equal norm (scaled unit vectors,
/// Hadamard sign patterns, box-car indicators with equal counts), possibly in two groups of different norm
fn tied_case<T: Sc>(rng: &mut Rng, case: u64, out: &mut CaseOut) {
    let stream = "tied-singular-values";
    let kind = rng.below(3);
    let (n, m, base): (usize, usize, Mat) = match kind {
        0 => {
            let m = rng.int(2, 6);
            let n = m + rng.int(0, 4);
            let rows = rng.perm(n);
            let s1 = crate::sc::rt::<T>(rng.logrange(0.1, 10.0));
            let s2 = if rng.chance(0.5) { s1 } else { crate::sc::rt::<T>(s1 * rng.range(1.5, 4.0)) };
            let split = rng.int(1, m);
            (n, m, Mat::from_fn(n, m, |i, j| if i == rows[j] { if j < split { s1 } else { s2 } } else { 0.0 }))
        }
        1 => {
            // Sylvester-Hadamard patterns: entry (i, j) = (-1)^popcount(i & (j+1))
            let n = *rng.pick(&[4usize, 8, 16]);
            let m = rng.int(2, (n - 1).min(6));
            let s = crate::sc::rt::<T>(rng.logrange(0.1, 10.0));
            let cols = rng.perm(n - 1);
            (n, m, Mat::from_fn(n, m, |i, j| if (i & (cols[j] + 1)).count_ones() % 2 == 0 { s } else { -s }))
        }
        _ => {
            let m = rng.int(2, 5);
            let per = rng.int(1, 4);
            let n = m * per + rng.int(0, 2);
            (n, m, Mat::from_fn(n, m, |i, j| if i / per == j { 1.0 } else { 0.0 }))
        }
    };
    let s = *rng.pick(&[1usize, 1, 2, 3]);
    let y = Mat::from_fn(n, s, |_, _| rng.normal() * 3.0);
    // weights that keep the ties: none, one constant, or one constant with random signs
    let w = match rng.below(3) {
        0 => None,
        1 => Some(vec![crate::sc::rt::<T>(rng.logrange(0.2, 5.0)); n]),
        _ => {
            let c = crate::sc::rt::<T>(rng.logrange(0.2, 5.0));
            Some((0..n).map(|_| c * rng.sign()).collect())
        }
    };
    let spec = ProblemSpec { model: ModelKind::Table { n, m, p: 1, base, slope: vec![Mat::zeros(n, m)] }, alpha0: vec![rng.normal()], y, w, eps: None, mrhs: s > 1 || rng.chance(0.3), par: rng.chance(0.3) };
    let Ok(mut prob) = build_problem::<T>(&spec, &SpyCtl::new()) else {
        violation(out, stream, case, "valid problem rejected by the builder", spec.to_json());
        return;
    };
    out.seen("tied_patterns", ["scaled unit vectors", "Hadamard sign patterns", "box-car indicators"][kind]);
    for step in 0..2 {
        let alpha: Vec<f64> = prob.params().iter().map(|v| v.w()).collect();
        match prob.coeffs() {
            Some(c) => {
                let before = out.violations.len();
                check_state::<T>(out, stream, case, &spec, &widen(&prob.weighted_data()), &alpha, &widen(&c), T::EPS, if step == 0 { "tied singular values, after build" } else { "tied singular values, after set_params" });
                if out.violations.len() > before {
                    return;
                }
            }
            None => {
                out.evals += 1;
                violation(out, stream, case, "finite basis matrix with tied singular values but no coefficients", spec.to_json());
                return;
            }
        }
        prob.set_params(&DVector::from_vec(vec![T::of(rng.normal())]));
    }
    out.nontrivial.push(spec.hash());
}

/// many basis functions (24..100 columns of a well-conditioned table): iteration budgets and sweep
/// counts inside the decomposition must scale with the size of the matrix
fn wide_basis_case<T: Sc>(rng: &mut Rng, case: u64, out: &mut CaseOut) {
    let stream = "many-basis-functions";
    let m = rng.int(24, 100);
    let n = m + rng.int(0, 60);
    let s = *rng.pick(&[1usize, 1, 2]);
    let base = Mat::from_fn(n, m, |_, _| rng.normal());
    let slope = vec![Mat::from_fn(n, m, |_, _| rng.normal() * 0.1)];
    let y = Mat::from_fn(n, s, |_, _| rng.normal() * 3.0);
    let w = if rng.chance(0.5) { Some((0..n).map(|_| rng.range(0.3, 2.0) * rng.sign()).collect()) } else { None };
    let spec = ProblemSpec { model: ModelKind::Table { n, m, p: 1, base, slope }, alpha0: vec![rng.normal()], y, w, eps: None, mrhs: s > 1 || rng.chance(0.3), par: rng.chance(0.3) };
    let Ok(mut prob) = build_problem::<T>(&spec, &SpyCtl::new()) else {
        violation(out, stream, case, "valid problem rejected by the builder", spec.to_json());
        return;
    };
    out.seen("many_basis_functions_M", format!("{}", m / 10 * 10));
    for step in 0..2 {
        let alpha: Vec<f64> = prob.params().iter().map(|v| v.w()).collect();
        match prob.coeffs() {
            Some(c) => {
                let before = out.violations.len();
                check_state::<T>(out, stream, case, &spec, &widen(&prob.weighted_data()), &alpha, &widen(&c), T::EPS, if step == 0 { "many basis functions, after build" } else { "many basis functions, after set_params" });
                if out.violations.len() > before {
                    return;
                }
            }
            None => {
                out.evals += 1;
                violation(out, stream, case, format!("finite {n}x{m} basis matrix but no coefficients are reported"), json!({"N": n, "M": m, "alpha": alpha}));
                return;
            }
        }
        prob.set_params(&DVector::from_vec(vec![T::of(rng.normal())]));
    }
    out.nontrivial.push(spec.hash());
}

fn kf1_witness_case(_rng: &mut Rng, case: u64, out: &mut CaseOut) {
    let stream = "kf1-witnesses";
    let mut rng = Rng::new(0xC01_0000 + case);
    let n = 5;
    let m = 2;
    let q = la::orthonormalize(&Mat::from_fn(n, m, |_, _| rng.normal()));
    let s = vec![0.0873, 10f64.powf(-9.0 - case as f64)];
    let d = DesignedSpec { q, s, inv_w: None };
    let alpha0 = vec![rng.range(-3.0, 3.0)];
    let y = Mat::from_fn(n, 1, |_, _| rng.normal());
    let spec = ProblemSpec { model: ModelKind::Designed(d), alpha0: alpha0.clone(), y, w: None, eps: None, mrhs: false, par: false };
    let Ok(prob) = build_problem::<f64>(&spec, &SpyCtl::new()) else { return };
    let Some(c) = prob.coeffs() else { return };
    check_state::<f64>(out, stream, case, &spec, &widen(&prob.weighted_data()), &alpha0, &widen(&c), f64::EPSILON, "KF-1 witness");
}

pub fn run(ctx: &Ctx) {
    ctx.run_cases("kf1-witnesses", 6, 30.0, kf1_witness_case);
    ctx.rule("[many-basis-functions: well-conditioned tables with 24..100 columns and up to 160 rows] [tied-singular-values: orthogonal basis functions of equal norm - scaled unit vectors in one or two groups, Hadamard sign patterns, box-car indicators with equal counts - with no, constant or sign-flipped constant weights, so that singular values of W·Phi tie exactly] states: zoo models Z1-Z4 (builder-made and hand-written) x data with 1..7 columns of different magnitude x six weight classes x f32/f64 x sequential/parallel, checked after build and after each of 1..5 parameter updates with alpha drawn 0.4x..2.5x around the generating values; fit-trajectories: every state the optimizer visited (ProblemSpy); designed-rank: singular values fixed by construction >=16x or <=1/16 of default/user/negative thresholds; threshold-boundary: one-column model with singular value exactly at / one ulp above the threshold; duplicate-columns; linearity: columns [y1,y2,a*y1+b*y2]. A case is non-trivial when the residual exceeds 1e-3 of the weighted data and (weights are non-constant or S>1), or is a designed rank/boundary case; distinct = distinct (problem, alpha) hashes");
    ctx.assume("oracle: own Householder QR / one-sided Jacobi SVD in f64; Phi from the zoo's closed formulas evaluated in the scalar type under test");
    ctx.assume("strict-certificate failures are attributed to KF-1 only when the dependency's measured SVD reconstruction error explains them (DESIGN 3.4)");
    let t = ctx.tier;
    let b = t.pick(30.0, 900.0);
    ctx.run_cases("states", t.pick(12000, 480000), b, |r, c, o| if c % 3 == 0 { states_case::<f32>(r, c, o) } else { states_case::<f64>(r, c, o) });
    ctx.run_cases("fit-trajectories", t.pick(1500, 64000), b, |r, c, o| if c % 4 == 0 { fit_case::<f32>(r, c, o) } else { fit_case::<f64>(r, c, o) });
    ctx.run_cases("designed-rank", t.pick(8000, 320000), b, |r, c, o| if c % 3 == 0 { designed_case::<f32>(r, c, o) } else { designed_case::<f64>(r, c, o) });
    ctx.run_cases("threshold-boundary", t.pick(1000, 40000), b, |r, c, o| if c % 2 == 0 { boundary_case::<f32>(r, c, o) } else { boundary_case::<f64>(r, c, o) });
    ctx.run_cases("duplicate-columns", t.pick(1000, 40000), b, |r, c, o| if c % 3 == 0 { duplicate_case::<f32>(r, c, o) } else { duplicate_case::<f64>(r, c, o) });
    ctx.run_cases("linearity", t.pick(3000, 120000), b, |r, c, o| if c % 3 == 0 { linearity_case::<f32>(r, c, o) } else { linearity_case::<f64>(r, c, o) });
    ctx.run_cases("many-basis-functions", t.pick(300, 12000), b, |r, c, o| if c % 3 == 0 { wide_basis_case::<f32>(r, c, o) } else { wide_basis_case::<f64>(r, c, o) });
    ctx.run_cases("tied-singular-values", t.pick(3000, 120000), b, |r, c, o| if c % 3 == 0 { tied_case::<f32>(r, c, o) } else { tied_case::<f64>(r, c, o) });
}
