//! C07 — multiple right-hand sides: shared α, independent per-column coefficients

use crate::gen::*;
use crate::la::{self, Mat};
use crate::oracle::View;
use crate::problem::*;
use crate::rng::Rng;
use crate::run::*;
use crate::sc::{widen, Sc};
use crate::spy::SpyCtl;
use crate::twin::*;
use nalgebra::DVector;
use serde_json::json;

fn cond_ok<T: Sc>(v: &View) -> bool {
    v.finite() && (1e-100..=1e100).contains(&v.sigma1()) && v.kappa() * T::EPS <= 1e-3 && v.sigma_min() > 16.0 * T::EPS
}

fn dnorms<T: Sc>(spec: &ProblemSpec, alpha: &[f64], w: &[f64]) -> Vec<f64> {
    (0..spec.model.np()).map(|k| spec.model.dphi64::<T>(alpha, k).row_scale(w).fro()).collect()
}

fn twin_case<T: Sc>(rng: &mut Rng, case: u64, out: &mut CaseOut) {
    let stream = "mrhs-vs-singles";
    let s = *rng.pick(&[1usize, 2, 2, 3, 3, 5, 8, 12]);
    let g = gen_problem(rng, &GenOpts { nmax: 40, force_s: Some(s), ..Default::default() });
    let mut spec = g.spec;
    spec.mrhs = true;
    let n = spec.y.r;
    // duplicated and linearly dependent observation columns
    if s >= 3 && rng.chance(0.4) {
        for i in 0..n {
            let v = spec.y.at(i, 0);
            spec.y.set(i, 1, v);
            let lin = 2.0 * spec.y.at(i, 0) - 0.5 * spec.y.at(i, 2);
            if s >= 4 {
                spec.y.set(i, 3, lin);
            }
        }
        out.count("cases_with_duplicated_or_dependent_columns");
    }
    // one contaminated column: a NaN / infinite observation in one right-hand side must not reach the others
    let bad_col: Option<usize> = if s >= 2 && rng.chance(0.15) {
        let j = rng.below(s);
        let i = rng.below(n);
        spec.y.set(i, j, *rng.pick(&[f64::NAN, f64::INFINITY, f64::NEG_INFINITY]));
        out.count("cases_with_a_non_finite_observation_in_one_column");
        Some(j)
    } else {
        None
    };
    spec.alpha0 = wide_alpha(rng, &g.alpha_true);
    out.seen("S", format!("{s}"));
    out.seen("flavour", if spec.par { "parallel" } else { "sequential" });
    let Ok(mut big) = build_problem::<T>(&spec, &SpyCtl::new()) else {
        violation(out, stream, case, "valid problem rejected", spec.to_json());
        return;
    };
    // singles
    let mut singles: Vec<AnyProblem<T>> = Vec::new();
    for j in 0..s {
        let mut sj = spec.clone();
        sj.y = Mat::from_cols(n, 1, spec.y.col(j).to_vec());
        sj.mrhs = false;
        match build_problem::<T>(&sj, &SpyCtl::new()) {
            Ok(p) => singles.push(p),
            Err(e) => {
                violation(out, stream, case, format!("single-column problem rejected: {e}"), sj.to_json());
                return;
            }
        }
    }
    // permuted MRHS problem
    let perm = rng.perm(s);
    let mut pspec = spec.clone();
    pspec.y = Mat::from_fn(n, s, |i, j| spec.y.at(i, perm[j]));
    let Ok(mut permuted) = build_problem::<T>(&pspec, &SpyCtl::new()) else {
        violation(out, stream, case, "permuted problem rejected", pspec.to_json());
        return;
    };
    let nsteps = rng.int(1, 4);
    for step in 0..=nsteps {
        let sb = snap(&big, true);
        let alpha = sb.params.clone();
        let v = View::new::<T>(&spec, &alpha);
        if cond_ok::<T>(&v) {
            let yw = widen(&big.weighted_data());
            let dn = dnorms::<T>(&spec, &alpha, &v.w);
            let sp = snap(&permuted, true);
            for j in 0..s {
                if Some(j) == bad_col {
                    // the contaminated column itself has no finite reference
                    continue;
                }
                out.evals += 1;
                let sj = snap(&singles[j], true);
                // block j of the MRHS problem vs the single problem for column j
                match close_ratio(&v, yw.col(j), &sb, j, &sj, 0, &dn, T::EPS) {
                    Ok((rc, rr, rj)) => {
                        out.ratio("column_vs_single_coefficients", rc);
                        out.ratio("column_vs_single_residual_block", rr);
                        out.ratio("column_vs_single_jacobian_block", rj);
                        if !(rc <= 1.0 && rr <= 1.0 && rj <= 1.0) {
                            violation(out, stream, case, format!("column {j} of the {s}-column problem differs from the single problem for that column at alpha={alpha:?}: coefficients {rc:.3e}, residual block {rr:.3e}, Jacobian block {rj:.3e}"),
                                json!({"problem": spec.to_json(), "alpha": alpha, "column": j, "mrhs_coeff": sb.coeff.as_ref().map(|m| m.d.clone()), "single_coeff": sj.coeff.as_ref().map(|m| m.d.clone())}));
                            return;
                        }
                    }
                    Err(e) => {
                        violation(out, stream, case, format!("column {j} vs single problem: {e}"), json!({"problem": spec.to_json(), "alpha": alpha}));
                        return;
                    }
                }
                // check total lengths: residual has N*S entries, jacobian N*S rows
                if sb.resid.as_ref().map(|r| r.len()) != Some(n * s) || sb.jac.as_ref().map(|m| m.r) != Some(n * s) {
                    violation(out, stream, case, format!("residual/Jacobian of the {s}-column problem do not have N·S = {} rows", n * s), json!({"problem": spec.to_json()}));
                    return;
                }
                // permuted problem: its column jj (= original column perm[jj]) — find jj with perm[jj] == j
                let jj = perm.iter().position(|p| *p == j).unwrap();
                match close_ratio(&v, yw.col(j), &sb, j, &sp, jj, &dn, T::EPS) {
                    Ok((rc, rr, rj)) => {
                        out.ratio("permutation", rc.max(rr).max(rj));
                        if !(rc <= 1.0 && rr <= 1.0 && rj <= 1.0) {
                            violation(out, stream, case, format!("permuting the observation columns does not permute coefficients/blocks accordingly (column {j} -> {jj}): ratios {rc:.3e} {rr:.3e} {rj:.3e}"),
                                json!({"problem": spec.to_json(), "alpha": alpha, "permutation": perm}));
                            return;
                        }
                    }
                    Err(e) => {
                        violation(out, stream, case, format!("permuted problem: {e}"), json!({"problem": spec.to_json(), "alpha": alpha}));
                        return;
                    }
                }
                if s == 1 {
                    if bit_diff(&sb, &sj).is_none() {
                        out.count("one_column_mrhs_bitwise_equal_to_single");
                    } else {
                        out.count("one_column_mrhs_differs_in_rounding_from_single");
                    }
                }
            }
            let rn = sb.resid.as_ref().map(|r| la::norm2(r)).unwrap_or(0.0);
            if s > 1 && rn > 1e-3 * yw.fro() {
                out.nontrivial.push(crate::rng::hash_u64s([spec.hash(), crate::rng::hash_u64s(alpha.iter().map(|a| a.to_bits()))]));
            }
        } else {
            out.inconcl("ill-conditioned beyond the tolerance model / non-finite");
        }
        if step < nsteps {
            let al = wide_alpha(rng, &g.alpha_true);
            let vv = DVector::from_iterator(al.len(), al.iter().map(|x| T::of(*x)));
            big.set_params(&vv);
            permuted.set_params(&vv);
            for p in singles.iter_mut() {
                p.set_params(&vv);
            }
        }
    }
    if case < 2 {
        out.sample(json!({"stream": stream, "S": s, "permutation": perm, "problem": spec.to_json()}));
    }
}

/// fitted α is unchanged (to optimizer accuracy) by a column permutation; identifiable families only
fn fit_perm_case<T: Sc>(rng: &mut Rng, case: u64, out: &mut CaseOut) {
    let stream = "permuted-fit";
    let s = rng.int(2, 5);
    let n = rng.int(24, 80);
    let k = rng.int(1, 2);
    let hi = rng.range(6.0, 12.0);
    let x = crate::zoo::grid(rng, n, 0.0, hi, false);
    let mspec = crate::zoo::z1(x, k, true);
    let mut taus = vec![rng.range(0.7, 1.5)];
    if k == 2 {
        taus.push(taus[0] * rng.range(3.0, 5.0));
    }
    let g = gen_problem_for(rng, &GenOpts { noise: 0.01, force_s: Some(s), ..Default::default() }, mspec, taus.clone());
    let mut spec = g.spec;
    spec.mrhs = true;
    spec.w = if rng.chance(0.5) { None } else { Some((0..n).map(|_| rng.range(0.5, 2.0)).collect()) };
    spec.alpha0 = perturb_alpha(rng, &taus, 0.05);
    let perm = rng.perm(s);
    let mut pspec = spec.clone();
    pspec.y = Mat::from_fn(n, s, |i, j| spec.y.at(i, perm[j]));
    let lm = LmCfg::default_cfg().make::<T>();
    let (Ok(a), Ok(b)) = (build_problem::<T>(&spec, &SpyCtl::new()), build_problem::<T>(&pspec, &SpyCtl::new())) else {
        violation(out, stream, case, "valid problem rejected", spec.to_json());
        return;
    };
    let fa = a.fit(&lm);
    let fb = b.fit(&lm);
    out.evals += 1;
    if !(fa.is_ok() && fb.is_ok()) {
        out.inconcl("a fit of the pair did not converge");
        return;
    }
    out.nontrivial.push(spec.hash());
    let pa: Vec<f64> = fa.nonlinear_parameters().iter().map(|v| v.w()).collect();
    let pb: Vec<f64> = fb.nonlinear_parameters().iter().map(|v| v.w()).collect();
    // "up to the accuracy of the optimizer" is only meaningful where the fitted point is identifiable
    let v = View::new::<T>(&spec, &pa);
    if !v.finite() || v.kappa() > if T::IS_F64 { 1e3 } else { 30.0 } {
        out.inconcl("fitted point not well identified (basis nearly collinear): fitted alpha comparison skipped");
        return;
    }
    // "up to the accuracy of the optimizer": the stopping rules bound the change of the objective, so a
    // parameter along a flat direction is only determined up to the conditioning of the problem
    let tol = if T::IS_F64 { 1e-6 } else { 2e-2 } * v.kappa().max(1.0);
    let rel = pa.iter().zip(&pb).map(|(x, y)| (x - y).abs() / x.abs().max(1e-300)).fold(0.0, f64::max);
    out.ratio("fitted_alpha_under_permutation", rel / tol);
    if rel > tol {
        violation(out, stream, case, format!("permuting the observation columns changes the fitted alpha: {pa:?} vs {pb:?}"), json!({"problem": spec.to_json(), "permutation": perm}));
        return;
    }
    // coefficients permuted accordingly
    let (Some(ca), Some(cb)) = (fa.coeffs(), fb.coeffs()) else { return };
    let (ca, cb) = (widen(&ca), widen(&cb));
    for jj in 0..s {
        let j = perm[jj];
        let d: Vec<f64> = (0..ca.r).map(|i| ca.at(i, j) - cb.at(i, jj)).collect();
        let scale = la::norm2(ca.col(j)).max(1e-300);
        let ctol = if T::IS_F64 { 1e-5 } else { 5e-2 } * v.kappa().max(1.0);
        if la::norm2(&d) / scale > ctol {
            violation(out, stream, case, format!("fitted coefficients of column {j} are not found at position {jj} of the permuted problem"), json!({"problem": spec.to_json(), "permutation": perm, "A": ca.d, "B": cb.d}));
            return;
        }
    }
}

/// rank-deficient states: the truncation must act on every right-hand side alike
fn rankdef_case<T: Sc>(rng: &mut Rng, case: u64, out: &mut CaseOut) {
    let stream = "rank-deficient";
    let (g, hist) = gen_rank_deficient(rng, T::IS_F64, 5, 3);
    let mut spec = g.spec;
    spec.mrhs = true;
    let s = spec.s();
    let n = spec.y.r;
    let thr = crate::sc::rt::<T>(spec.eps.unwrap()).abs();
    let Ok(mut big) = build_problem::<T>(&spec, &SpyCtl::new()) else {
        violation(out, stream, case, "valid problem rejected", spec.to_json());
        return;
    };
    let mut singles: Vec<AnyProblem<T>> = Vec::new();
    for j in 0..s {
        let mut sj = spec.clone();
        sj.y = Mat::from_cols(n, 1, spec.y.col(j).to_vec());
        sj.mrhs = false;
        match build_problem::<T>(&sj, &SpyCtl::new()) {
            Ok(p) => singles.push(p),
            Err(e) => {
                violation(out, stream, case, format!("single-column problem rejected: {e}"), sj.to_json());
                return;
            }
        }
    }
    let perm = rng.perm(s);
    let mut pspec = spec.clone();
    pspec.y = Mat::from_fn(n, s, |i, j| spec.y.at(i, perm[j]));
    let Ok(mut permuted) = build_problem::<T>(&pspec, &SpyCtl::new()) else { return };
    for step in 0..=hist.len() {
        let sb = snap(&big, true);
        let alpha = sb.params.clone();
        let v = View::new::<T>(&spec, &alpha);
        match v.decisive_rank(thr, T::EPS) {
            Some((kept, kk)) if kept < v.m && kk * T::EPS <= 1e-3 => {
                let yw = widen(&big.weighted_data());
                let dn = dnorms::<T>(&spec, &alpha, &v.w);
                let sp = snap(&permuted, true);
                for j in 0..s {
                    out.evals += 1;
                    let sj = snap(&singles[j], true);
                    let jj = perm.iter().position(|p| *p == j).unwrap();
                    for (what, other, col) in [("the single problem for that column", &sj, 0usize), ("the permuted problem", &sp, jj)] {
                        match close_ratio_k(&v, kk, yw.col(j), &sb, j, other, col, &dn, T::EPS) {
                            Ok((rc, rr, rj)) if rc <= 1.0 && rr <= 1.0 && rj <= 1.0 => {
                                out.ratio("rank_deficient_column_twins", rc.max(rr).max(rj));
                            }
                            other_r => {
                                violation(out, stream, case, format!("rank-deficient state (kept {kept} of {} singular values): column {j} of the {s}-column problem disagrees with {what}: {other_r:?}", v.m),
                                    json!({"problem": spec.to_json(), "alpha": alpha, "column": j}));
                                return;
                            }
                        }
                    }
                }
                if s > 1 {
                    out.nontrivial.push(crate::rng::hash_u64s([spec.hash(), step as u64]));
                }
                out.count("rank_deficient_states_compared");
            }
            _ => out.inconcl("rank-deficient state not decisive for the tolerance model"),
        }
        if step < hist.len() {
            let vv = DVector::from_iterator(hist[step].len(), hist[step].iter().map(|x| T::of(*x)));
            big.set_params(&vv);
            permuted.set_params(&vv);
            for p in singles.iter_mut() {
                p.set_params(&vv);
            }
        }
    }
}

pub fn run(ctx: &Ctx) {
    ctx.rule("mrhs-vs-singles: an S-column problem (S in {1,2,3,5,8,12}, incl. duplicated and linearly dependent columns, in 15 % of the cases one NaN/infinite observation in one column - the other columns must still equal their single problems -, weights, both flavours, f32/f64), the S single-column problems and a column-permuted S-column problem driven through the same alpha-history (1..4 wide updates); per column: coefficient column, residual block and every Jacobian block compared with kappa-scaled twin tolerances, total row counts N·S; S=1: bitwise agreement with the single problem recorded. rank-deficient: the same comparison at states with two exactly equal decay constants and a user threshold (tolerances scaled with the condition number of the kept part). permuted-fit: fits of well-separated decay models with 2..5 columns, fitted alpha equal to 1e-6 (f64) under permutation and coefficients permuted. non-trivial = S>1 and residual > 1e-3 |Y_w|");
    let t = ctx.tier;
    let b = t.pick(30.0, 900.0);
    ctx.run_cases("mrhs-vs-singles", t.pick(5000, 240000), b, |r, c, o| if c % 3 == 0 { twin_case::<f32>(r, c, o) } else { twin_case::<f64>(r, c, o) });
    ctx.run_cases("rank-deficient", t.pick(2000, 80000), b, |r, c, o| if c % 3 == 0 { rankdef_case::<f32>(r, c, o) } else { rankdef_case::<f64>(r, c, o) });
    ctx.run_cases("permuted-fit", t.pick(1500, 64000), b, |r, c, o| if c % 4 == 0 { fit_perm_case::<f32>(r, c, o) } else { fit_perm_case::<f64>(r, c, o) });
}
