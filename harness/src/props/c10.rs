//! C10 — problem state is a function of the current α only (no history, no garbage)

use crate::gen::*;
use crate::la::Mat;
use crate::problem::*;
use crate::procmon::*;
use crate::rng::Rng;
use crate::run::*;
use crate::sc::{bits_of, Sc};
use crate::spy::SpyCtl;
use crate::twin::*;
use nalgebra::DVector;
use serde_json::json;
use std::sync::Arc;

#[derive(Clone, Debug)]
pub enum Op {
    Set(Vec<f64>),
    SetSame,
    /// fail the model's own set_params (0) or eval (1) during this update (transient)
    SetFail(Vec<f64>, u64),
    Query(usize),
    /// fail the d-th derivative call of the next jacobian(), then query again
    JacFail(usize),
    Churn(u64),
    /// a complete (short) fit on the long-lived problem; the problem inside the result carries on
    Fit(u64),
}

pub struct Sequence {
    pub spec: ProblemSpec,
    pub ops: Vec<Op>,
}

/// shapes: zoo problems, and table models with M up to 8, P up to 10 including dead
/// parameters (identically zero derivative matrices) and zero derivative columns
pub fn gen_sequence(rng: &mut Rng, nmax: usize, len: usize, hostile: bool, is_f32: bool) -> Sequence {
    let table = rng.chance(0.45);
    let (spec, alpha_ref) = if table {
        let m = rng.int(1, 8);
        let n = rng.int(m, nmax.max(m));
        let p = rng.int(1, 10);
        let s = rng.int(1, 4);
        let base = Mat::from_fn(n, m, |_, _| rng.normal());
        // badly scaled parameter vectors: parameter k lives at scale pscale[k] (slopes compensate)
        let badly_scaled = rng.chance(0.35);
        let pscale: Vec<f64> = (0..p).map(|_| if badly_scaled { 10f64.powf(rng.range(-9.0, 3.0).round()) } else { 1.0 }).collect();
        let slope: Vec<Mat> = (0..p)
            .map(|k| {
                if rng.chance(0.25) {
                    Mat::zeros(n, m) // dead parameter
                } else {
                    let dead_col = if rng.chance(0.4) { Some(rng.below(m)) } else { None };
                    Mat::from_fn(n, m, |_, j| if Some(j) == dead_col { 0.0 } else { rng.normal() * 0.3 / pscale[k] })
                }
            })
            .collect();
        let y = Mat::from_fn(n, s, |_, _| rng.normal() * 3.0);
        let w = if rng.chance(0.5) { Some((0..n).map(|_| rng.range(0.3, 2.0) * rng.sign()).collect()) } else { None };
        let alpha0: Vec<f64> = (0..p).map(|k| rng.normal() * pscale[k]).collect();
        (
            ProblemSpec { model: ModelKind::Table { n, m, p, base, slope }, alpha0: alpha0.clone(), y, w, eps: None, mrhs: s > 1 || rng.chance(0.3), par: rng.chance(0.4) },
            pscale,
        )
    } else {
        let g = gen_problem(rng, &GenOpts { nmax, smax: 4, ..Default::default() });
        let a = g.alpha_true.clone();
        (g.spec, a)
    };
    let np = spec.alpha0.len();
    let mut ops = Vec::new();
    let draw = |rng: &mut Rng| -> Vec<f64> {
        if table {
            // alpha_ref holds the per-parameter scales of a table model
            (0..np).map(|k| rng.normal() * 2.0 * alpha_ref[k]).collect()
        } else {
            wide_alpha(rng, &alpha_ref)
        }
    };
    let mut prev: Vec<f64> = spec.alpha0.clone();
    let mut applied: Vec<Vec<f64>> = vec![spec.alpha0.clone()];
    for _ in 0..len {
        match rng.below(12) {
            0..=3 => {
                // coordinate-wise steps keep the other parameters bit-identical; sometimes the vector
                // applied before the previous one comes back (A, B, A)
                let fresh = draw(rng);
                let a = next_alpha_hist(rng, &applied, fresh);
                prev = a.clone();
                applied.push(a.clone());
                ops.push(Op::Set(a))
            }
            4 => ops.push(Op::SetSame),
            5 => {
                // extreme parameters that empty the cache
                let mut a = draw(rng);
                let k = rng.below(np);
                a[k] = if hostile { hostile_f64(rng) } else { *rng.pick(&[f64::NAN, f64::INFINITY, 1e308, -1e308, 0.0]) };
                ops.push(Op::Set(a));
            }
            6 => ops.push(Op::SetFail(draw(rng), rng.below(2) as u64)),
            7 | 8 => ops.push(Op::Query(rng.int(1, 3))),
            9 => ops.push(Op::JacFail(rng.below(np))),
            10 => {
                // a run of one-ulp nudges of a single parameter
                let k = rng.below(np);
                for _ in 0..rng.int(1, 4) {
                    let mut a = prev.clone();
                    a[k] = if !a[k].is_finite() {
                        a[k]
                    } else if is_f32 {
                        f32::from_bits((a[k] as f32).to_bits().wrapping_add(1)) as f64
                    } else {
                        f64::from_bits(a[k].to_bits().wrapping_add(1))
                    };
                    prev = a.clone();
                    ops.push(Op::Set(a));
                }
            }
            11 if rng.chance(0.5) => ops.push(Op::Fit(rng.next_u64())),
            _ => ops.push(Op::Churn(rng.next_u64())),
        }
        if rng.chance(0.5) {
            ops.push(Op::Query(1));
        }
    }
    Sequence { spec, ops }
}

fn churn(seed: u64) {
    // allocate, dirty and free blocks of assorted sizes so that later allocations see garbage
    let mut rng = Rng::new(seed);
    let mut keep: Vec<Vec<f64>> = Vec::new();
    for _ in 0..rng.int(2, 12) {
        let len = rng.int(1, 700);
        let v: Vec<f64> = (0..len).map(|_| f64::from_bits(rng.next_u64() | 0x7FF0_0000_0000_0001)).collect();
        keep.push(v);
        if rng.chance(0.5) && !keep.is_empty() {
            let i = rng.below(keep.len());
            keep.swap_remove(i);
        }
    }
    std::hint::black_box(&keep);
}

pub struct SeqResult {
    /// bits of every observable output, in order of observation
    pub bits: Vec<u64>,
    pub observations: u64,
    pub states_with_values: u64,
    pub problems: Vec<String>,
}

fn push_snap(bits: &mut Vec<u64>, s: &Snap) {
    bits.extend(&s.params_bits);
    for b in [&s.resid_bits, &s.coeff_bits, &s.jac_bits] {
        match b {
            Some(v) => {
                bits.push(1);
                bits.extend(v);
            }
            None => bits.push(0),
        }
    }
}

/// Execute the sequence on one long-lived problem. With `fresh_twin`, after every
/// parameter update the state is compared bitwise with a freshly built problem
/// at the reported parameters; repeated queries must be identical.
pub fn run_sequence<T: Sc>(seq: &Sequence, fresh_twin: bool) -> SeqResult {
    let mut res = SeqResult { bits: Vec::new(), observations: 0, states_with_values: 0, problems: Vec::new() };
    let ctl: Arc<SpyCtl> = SpyCtl::new();
    let Ok(mut prob) = build_problem::<T>(&seq.spec, &ctl) else {
        res.problems.push("valid problem rejected by the builder".into());
        return res;
    };
    let mut last: Vec<T> = seq.spec.alpha0.iter().map(|v| T::of(*v)).collect();
    // a fit returns the problem in its sequential flavour: the fresh twin follows
    let par_now = std::cell::Cell::new(seq.spec.par);
    let compare_fresh = |prob: &AnyProblem<T>, res: &mut SeqResult, what: &str| {
        let s = snap(prob, true);
        push_snap(&mut res.bits, &s);
        res.observations += 1;
        if s.resid.is_some() {
            res.states_with_values += 1;
        }
        // builder-made models: the value matrix itself is allocated uninitialised
        if let Some(m) = prob.model_eval() {
            res.bits.extend(bits_of(&m));
        }
        if fresh_twin {
            let mut fs = seq.spec.clone();
            fs.alpha0 = s.params.clone();
            fs.par = par_now.get();
            // parameters travel as f64; NaN payloads and f32 values survive the round trip
            if let Ok(f) = build_problem::<T>(&fs, &SpyCtl::new()) {
                let sf = snap(&f, true);
                // a fresh problem whose parameters are NaN reports NaN as well: compare values other than params
                let mut a = s.clone();
                let mut b = sf.clone();
                a.params_bits.clear();
                b.params_bits.clear();
                if let Some(d) = bit_diff(&a, &b) {
                    res.problems.push(format!("{what}: long-lived problem differs from a freshly built problem at the same parameters {:?}: {d}", s.params));
                }
            }
        }
    };
    compare_fresh(&prob, &mut res, "after build");
    for (i, op) in seq.ops.iter().enumerate() {
        match op {
            Op::Set(a) => {
                last = a.iter().map(|v| T::of(*v)).collect();
                prob.set_params(&DVector::from_vec(last.clone()));
                compare_fresh(&prob, &mut res, &format!("op {i} set_params"));
            }
            Op::SetSame => {
                prob.set_params(&DVector::from_vec(last.clone()));
                compare_fresh(&prob, &mut res, &format!("op {i} repeated set_params"));
            }
            Op::SetFail(a, which) => {
                let cand: Vec<T> = a.iter().map(|v| T::of(*v)).collect();
                ctl.set_fault((ctl.calls() + which) as i64, false);
                prob.set_params(&DVector::from_vec(cand.clone()));
                ctl.set_fault(-1, false);
                // an injected set_params failure leaves the model at its previous parameters
                let s = snap(&prob, false);
                push_snap(&mut res.bits, &s);
                res.observations += 1;
                if s.resid.is_some() || s.coeff.is_some() {
                    res.problems.push(format!("op {i}: values present after a failed update"));
                }
                // recover: apply the same vector again without a fault
                last = cand;
                prob.set_params(&DVector::from_vec(last.clone()));
                compare_fresh(&prob, &mut res, &format!("op {i} set_params after an earlier failed update"));
            }
            Op::Query(n) => {
                let first = snap(&prob, true);
                push_snap(&mut res.bits, &first);
                res.observations += 1;
                for _ in 0..*n {
                    let again = snap(&prob, true);
                    res.observations += 1;
                    if let Some(d) = bit_diff(&first, &again) {
                        res.problems.push(format!("op {i}: repeated query returned different values: {d}"));
                    }
                }
            }
            Op::JacFail(d) => {
                ctl.set_fault((ctl.calls() + *d as u64) as i64, false);
                let j = prob.jacobian();
                ctl.set_fault(-1, false);
                res.bits.push(j.is_some() as u64);
                compare_fresh(&prob, &mut res, &format!("op {i} query after a failed derivative"));
            }
            Op::Churn(seed) => churn(*seed),
            Op::Fit(seed) => {
                let mut r = Rng::new(*seed);
                let mut cfg = LmCfg::random(&mut r);
                cfg.default = false;
                cfg.patience = r.int(1, 4);
                let lm = cfg.make::<T>();
                let fit = prob.fit(&lm);
                res.bits.push(fit.is_ok() as u64);
                prob = fit.into_problem();
                par_now.set(false);
                last = prob.params().iter().cloned().collect();
                // the problem that went through a fit is still a function of its parameters only
                compare_fresh(&prob, &mut res, &format!("op {i} state of the problem returned by a fit"));
            }
        }
    }
    res
}

fn twin_case(rng: &mut Rng, case: u64, out: &mut CaseOut, len: usize) {
    let stream = "history-twin";
    let f32_ = case % 3 == 0;
    let seq = gen_sequence(rng, if f32_ { 32 } else { 64 }, len, case % 5 == 0, f32_);
    let run = |fresh: bool| if f32_ { run_sequence::<f32>(&seq, fresh) } else { run_sequence::<f64>(&seq, fresh) };
    let r = if seq.spec.par {
        // a parallel problem: the whole history runs inside an explicit pool, and once more inside a
        // pool of another size - the size of the pool is not part of the parameters, so every
        // observed bit must agree
        let sizes = [1usize, 2, 3, 5, 16];
        let t1 = sizes[(case % 5) as usize];
        let t2 = sizes[((case / 5 + 1 + case % 5) % 5) as usize];
        let p1 = rayon::ThreadPoolBuilder::new().num_threads(t1).build().unwrap();
        let r1 = p1.install(|| run(true));
        if t2 != t1 {
            let p2 = rayon::ThreadPoolBuilder::new().num_threads(t2).build().unwrap();
            let r2 = p2.install(|| run(false));
            out.evals += r2.observations;
            out.count("parallel_histories_repeated_in_a_pool_of_another_size");
            if r1.bits != r2.bits {
                let idx = (0..r1.bits.len().min(r2.bits.len())).find(|i| r1.bits[*i] != r2.bits[*i]);
                violation(out, stream, case, format!("outputs of a parallel problem depend on the size of the thread pool ({t1} vs {t2} threads; first differing output word {idx:?})"), json!({"problem": seq.spec.to_json(), "ops": format!("{:?}", seq.ops)}));
                return;
            }
        }
        r1
    } else {
        run(true)
    };
    out.evals += r.observations;
    if r.states_with_values > 0 {
        out.nontrivial.push(crate::rng::hash_u64s([seq.spec.hash(), crate::rng::hash_u64s(r.bits.iter().cloned().take(64))]));
    }
    out.add("states_with_values", r.states_with_values);
    out.seen("model_kind", match &seq.spec.model { ModelKind::Table { .. } => "table (M<=8,P<=10, dead parameters)", ModelKind::Built(_) => "builder-made", _ => "hand-written" });
    for p in r.problems.iter().take(1) {
        violation(out, stream, case, p.clone(), json!({"problem": seq.spec.to_json(), "ops": format!("{:?}", seq.ops)}));
    }
    if case < 2 {
        out.sample(json!({"stream": stream, "ops": format!("{:?}", seq.ops).chars().take(600).collect::<String>(), "N": seq.spec.model.n(), "M": seq.spec.model.m(), "P": seq.spec.model.np()}));
    }
}

/// clones of a problem are independent problems: original and clone are moved to different
/// parameters and queried in interleaved order; each must equal a fresh problem at its own parameters
fn clone_case<T: Sc>(rng: &mut Rng, case: u64, out: &mut CaseOut) {
    use crate::sc::dvec;
    use crate::zoo::{random_zoo, HandModel};
    use levenberg_marquardt::LeastSquaresProblem;
    use varpro::solvers::levmar::LevMarProblemBuilder;
    let stream = "clones";
    let (mspec, alpha) = random_zoo(rng, 24);
    let g = gen_problem_for(rng, &GenOpts { force_s: Some(1), ..Default::default() }, mspec.clone(), alpha.clone());
    let spec = g.spec;
    let par = rng.chance(0.5);
    macro_rules! build {
        ($ctor:ident, $a:expr) => {{
            let mut b = LevMarProblemBuilder::$ctor(HandModel::<T>::new(&mspec, $a)).observations(dvec::<T>(spec.y.col(0)));
            if let Some(w) = &spec.w {
                b = b.weights(dvec::<T>(w));
            }
            b.build()
        }};
    }
    macro_rules! body {
        ($ctor:ident) => {{
            let a0 = wide_alpha(rng, &alpha);
            let Ok(mut orig) = build!($ctor, &a0) else { return };
            let _ = orig.jacobian();
            let mut copy = orig.clone();
            for step in 0..rng.int(2, 5) {
                let (pa, pb) = (wide_alpha(rng, &alpha), wide_alpha(rng, &alpha));
                match rng.below(3) {
                    0 => orig.set_params(&dvec::<T>(&pa)),
                    1 => copy.set_params(&dvec::<T>(&pb)),
                    _ => {
                        orig.set_params(&dvec::<T>(&pa));
                        copy.set_params(&dvec::<T>(&pb));
                    }
                }
                // interleaved queries
                let order = rng.chance(0.5);
                let (j1, j2) = if order { let x = orig.jacobian(); let y = copy.jacobian(); (x, y) } else { let y = copy.jacobian(); let x = orig.jacobian(); (x, y) };
                for (name, p, j) in [("original", &orig, j1), ("clone", &copy, j2)] {
                    let params: Vec<f64> = p.params().iter().map(|v| v.w()).collect();
                    let Ok(fresh) = build!($ctor, &params) else { continue };
                    out.evals += 1;
                    let same = fresh.jacobian().map(|m| bits_of(&m)) == j.as_ref().map(|m| bits_of(m))
                        && fresh.residuals().map(|m| bits_of(&m)) == p.residuals().map(|m| bits_of(&m))
                        && fresh.linear_coefficients().map(|m| bits_of(&m)) == p.linear_coefficients().map(|m| bits_of(&m));
                    if !same {
                        violation(out, stream, case, format!("after cloning, the {name} (step {step}) does not report the state of a fresh problem at its own parameters {params:?}"), json!({"problem": spec.to_json()}));
                        return;
                    }
                }
            }
            out.nontrivial.push(spec.hash());
        }};
    }
    if par {
        body!(new_parallel)
    } else {
        body!(new)
    }
}

fn contains_poison<T: Sc>(bits: &[u64]) -> bool {
    let (aa, f5) = if T::IS_F64 { (crate::poison::PATTERN_AA_64, crate::poison::PATTERN_55_64) } else { (crate::poison::PATTERN_AA_32, crate::poison::PATTERN_55_32) };
    bits.iter().any(|b| *b == aa || *b == f5)
}

/// child-process case: the same sequence under the three poison modes
pub fn poison_case(rng: &mut Rng, case: u64, out: &mut CaseOut, ops: &OpLog) {
    let stream = "poison";
    let f32_ = case % 3 == 0;
    let seq = gen_sequence(rng, if f32_ { 32 } else { 64 }, 12, false, f32_);
    ops.op("poison modes 1,2,3");
    let mut results: Vec<Vec<u64>> = Vec::new();
    let before = crate::poison::BLOCKS_POISONED.load(std::sync::atomic::Ordering::Relaxed);
    for mode in [1u8, 2, 3] {
        crate::poison::set_mode(mode);
        let r = if f32_ { run_sequence::<f32>(&seq, false) } else { run_sequence::<f64>(&seq, false) };
        crate::poison::set_mode(0);
        out.evals += r.observations;
        if mode == 1 && r.states_with_values > 0 {
            out.nontrivial.push(seq.spec.hash());
        }
        results.push(r.bits);
    }
    out.add("heap_blocks_poisoned", crate::poison::BLOCKS_POISONED.load(std::sync::atomic::Ordering::Relaxed) - before);
    if results[0] != results[1] || results[0] != results[2] {
        let idx = (0..results[0].len().min(results[1].len()).min(results[2].len())).find(|i| results[0][*i] != results[1][*i] || results[0][*i] != results[2][*i]);
        violation(out, stream, case, format!("outputs depend on the contents of the heap at allocation time (first differing output word {:?}: {:x?} / {:x?} / {:x?})", idx, idx.map(|i| results[0][i]), idx.map(|i| results[1][i]), idx.map(|i| results[2][i])),
            json!({"problem": seq.spec.to_json(), "ops": format!("{:?}", seq.ops)}));
        return;
    }
    let poisoned = if f32_ { contains_poison::<f32>(&results[0]) } else { contains_poison::<f64>(&results[0]) };
    if poisoned {
        violation(out, stream, case, "an output element carries the allocator's poison bit pattern", json!({"problem": seq.spec.to_json()}));
    }
}

/// deterministic workload for the sanitizer engines (memcheck, Miri): every
/// element of every returned matrix is *used* (branched on) so that the tool
/// reports reads of uninitialised memory. Returns (observations, checksum).
pub fn sanitizer_workload(seed: u64, cases: u64, nmax: usize, len: usize) -> (u64, u64) {
    let mut obs = 0;
    let mut sum = 0u64;
    for c in 0..cases {
        let mut rng = Rng::keyed(seed, "C10/sanitizer", c);
        let seq = gen_sequence(&mut rng, nmax, len, false, c % 3 == 0);
        let r = if c % 3 == 0 { run_sequence::<f32>(&seq, false) } else { run_sequence::<f64>(&seq, false) };
        obs += r.observations;
        for b in &r.bits {
            // a data-dependent branch on every output word
            if *b & 1 == 1 {
                sum = sum.wrapping_add(*b);
            } else {
                sum ^= *b;
            }
        }
    }
    (obs, sum)
}

/// hash of every output bit of a dozen f64 histories run in THIS process, optionally after an f32
/// history has been run in it first (the state of a problem must not depend on what the process did before)
pub fn order_probe(seed: u64, f32_first: bool) -> u64 {
    if f32_first {
        let mut rng = Rng::keyed(seed, "C10/order-f32", 0);
        let seq = gen_sequence(&mut rng, 24, 6, false, true);
        let _ = run_sequence::<f32>(&seq, false);
    }
    let mut hs = Vec::new();
    for c in 0..12 {
        let mut rng = Rng::keyed(seed, "C10/order", c);
        let seq = gen_sequence(&mut rng, 32, 8, false, false);
        let r = run_sequence::<f64>(&seq, false);
        hs.push(crate::rng::hash_u64s(r.bits.iter().cloned()));
    }
    crate::rng::hash_u64s(hs)
}

fn order_probes(ctx: &Ctx, n: u64) {
    let exe = exe_for_profile("checked");
    let mut out = CaseOut::default();
    for k in 0..n {
        let seed = (ctx.seed * 1000 + k).to_string();
        let run = |flag: &str| -> Option<String> {
            let o = std::process::Command::new(&exe).args(["c10-order", &seed, flag]).output().ok()?;
            String::from_utf8_lossy(&o.stdout).lines().find(|l| l.starts_with("c10-order ")).map(|l| l.to_string())
        };
        match (run("0"), run("1")) {
            (Some(a), Some(b)) => {
                out.evals += 2;
                out.count("process_history_probes");
                if a != b {
                    violation(&mut out, "process-history", k, format!("the outputs of twelve f64 histories differ between a fresh process and a process that handled an f32 problem first ({a} vs {b})"), json!({"seed": seed}));
                }
            }
            _ => ctx.harness_error("c10-order probe produced no output".to_string()),
        }
    }
    ctx.merge_public(out);
}

fn run_tool(ctx: &Ctx, name: &str, cmd: &mut std::process::Command, timeout_s: u64) -> Option<(bool, String)> {
    use std::process::Stdio;
    let t0 = std::time::Instant::now();
    let mut child = match cmd.stdout(Stdio::piped()).stderr(Stdio::piped()).spawn() {
        Ok(c) => c,
        Err(e) => {
            ctx.harness_error(format!("{name}: cannot start: {e}"));
            return None;
        }
    };
    loop {
        match child.try_wait() {
            Ok(Some(_)) => break,
            Ok(None) => {
                if t0.elapsed().as_secs() > timeout_s {
                    let _ = child.kill();
                    let _ = child.wait();
                    return Some((false, format!("{name}: timed out after {timeout_s}s (inconclusive)")));
                }
                std::thread::sleep(std::time::Duration::from_millis(200));
            }
            Err(_) => break,
        }
    }
    let o = child.wait_with_output().ok()?;
    let text = format!("{}\n{}", String::from_utf8_lossy(&o.stdout), String::from_utf8_lossy(&o.stderr));
    Some((o.status.success(), text))
}

pub fn run(ctx: &Ctx) {
    ctx.rule("history-twin: one long-lived problem driven through 12 (quick) / 40 (thorough) random operations (wide updates, repeated alpha, non-finite/extreme alpha that empty the cache, injected model failures, repeated queries, failed derivative calls, heap churn, complete short fits after which the problem inside the fit result carries on; histories of parallel problems run inside explicit pools of 1/2/3/5/16 threads and are repeated in a pool of another size with bit-identical outputs) and compared bitwise after every update with a freshly built problem at the reported parameters; repeated queries identical. Shapes: zoo models and table models with M<=8, P<=10, N<=64, S<=4 including dead parameters (identically zero derivative matrices) and zero derivative columns. clones: a problem over a Clone-able hand-written model and its clone are moved to different parameters and queried in interleaved order, each compared bitwise with a fresh problem. process-history: twelve f64 histories in a fresh child process and in a child process that handled an f32 problem first, all output bits equal. poison: the same sequences in child processes under allocator poison modes 0xAA / 0x55 / random, outputs bit-identical across modes and free of poison patterns. thorough adds valgrind memcheck over the release build and Miri over small shapes, with a data-dependent branch on every output element. non-trivial = the sequence produced at least one state with values; distinct = hash(problem, first outputs)");
    ctx.assume("bitwise equality is demanded because the property is about identity/determinism of one deterministic computation on the same stored data");
    let t = ctx.tier;
    let len = t.pick(12, 40);
    ctx.run_cases("history-twin", t.pick(8000, 120000), t.pick(15.0, 900.0), |r, c, o| twin_case(r, c, o, len));
    ctx.run_cases("clones", t.pick(1500, 40000), t.pick(15.0, 300.0), |r, c, o| if c % 3 == 0 { clone_case::<f32>(r, c, o) } else { clone_case::<f64>(r, c, o) });
    if ctx.replay.is_none() {
        order_probes(ctx, t.pick(4, 24));
    }
    let exe = exe_for_profile("checked");
    run_in_children(ctx, &exe, "checked", "poison", t.pick(3200, 24000), 20.0, t.pick(60.0, 300.0));
    if t == Tier::Thorough && ctx.replay.is_none() {
        sanitizers(ctx);
    } else {
        ctx.extra("sanitizer_engines", json!("memcheck and Miri run in the thorough tier only"));
    }
}

fn sanitizers(ctx: &Ctx) {
    let mut engines = serde_json::Map::new();
    // valgrind memcheck over the release build (mode 0 allocator = plain malloc)
    let exe = exe_for_profile("release");
    let mut cmd = std::process::Command::new("valgrind");
    cmd.args(["--error-exitcode=97", "--track-origins=yes", "--quiet", &exe, "sanitizer-workload", "C10", &ctx.seed.to_string(), "60", "48", "10"]);
    match run_tool(ctx, "memcheck", &mut cmd, 900) {
        Some((ok, text)) => {
            let reports = text.matches("uninitialised").count();
            engines.insert("memcheck".into(), json!({"ran": true, "clean": ok, "uninitialised_value_reports": reports, "workload": text.lines().find(|l| l.starts_with("sanitizer-workload")).unwrap_or("")}));
            if !ok && text.contains("timed out") {
                let mut o = CaseOut::default();
                o.inconcl("memcheck timed out");
                ctx.merge_public(o);
            } else if !ok {
                let mut o = CaseOut::default();
                o.evals += 1;
                violation(&mut o, "memcheck", 0, format!("valgrind memcheck reported errors ({reports} mention uninitialised values)"), json!({"output": text.chars().take(4000).collect::<String>()}));
                ctx.merge_public(o);
            }
        }
        None => {}
    }
    // Miri over tiny shapes, sharded
    let shards = 8u64;
    let results = std::sync::Mutex::new(Vec::new());
    std::thread::scope(|s| {
        for sh in 0..shards {
            let results = &results;
            s.spawn(move || {
                let mut cmd = std::process::Command::new("cargo");
                cmd.current_dir(format!("{VERIF_DIR}/harness"))
                    .env("MIRIFLAGS", "-Zmiri-tree-borrows -Zmiri-permissive-provenance -Zmiri-deterministic-floats -Zmiri-ignore-leaks -Zmiri-disable-isolation")
                    .env("CARGO_NET_OFFLINE", "true")
                    .env("CARGO_TARGET_DIR", format!("{VERIF_DIR}/harness/target-miri"))
                    .args(["+nightly", "miri", "run", "--offline", "--quiet", "--bin", "vpmini", "--", "C10", &(ctx.seed * 100 + sh).to_string(), "3", "6", "5"]);
                let r = run_tool(ctx, "miri", &mut cmd, 1500);
                results.lock().unwrap().push((sh, r));
            });
        }
    });
    let mut miri_clean = 0;
    let mut miri_obs = 0u64;
    for (sh, r) in results.into_inner().unwrap() {
        match r {
            Some((true, text)) => {
                miri_clean += 1;
                if let Some(l) = text.lines().find(|l| l.starts_with("sanitizer-workload")) {
                    miri_obs += l.split_whitespace().nth(2).and_then(|x| x.parse::<u64>().ok()).unwrap_or(0);
                }
            }
            Some((false, text)) => {
                let mut o = CaseOut::default();
                if text.contains("timed out") {
                    o.inconcl("miri shard timed out");
                } else if text.contains("Undefined Behavior") || text.contains("uninitialized") {
                    o.evals += 1;
                    violation(&mut o, "miri", sh, "Miri reported undefined behaviour (uninitialised read?) in the C10 workload", json!({"output": text.chars().take(4000).collect::<String>()}));
                } else {
                    ctx.harness_error(format!("miri shard {sh} failed without a UB report: {}", text.chars().take(600).collect::<String>()));
                }
                ctx.merge_public(o);
            }
            None => {}
        }
    }
    engines.insert("miri".into(), json!({"shards": shards, "clean_shards": miri_clean, "observations": miri_obs}));
    ctx.extra("sanitizer_engines", serde_json::Value::Object(engines));
}
