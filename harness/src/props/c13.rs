//! C13 — covariance and correlation are those of the full parameter vector (c, α)

use crate::la::Mat;
use crate::problem::*;
use crate::rng::Rng;
use crate::run::*;
use crate::sc::{bits_of, widen, Sc};
use crate::statfit::*;
use serde_json::json;

pub const TAU_COV: f64 = 256.0;

fn ulps<T: Sc>(a: f64, b: f64) -> f64 {
    if a == b {
        return 0.0;
    }
    (a - b).abs() / (T::EPS * a.abs().max(b.abs()).max(f64::MIN_POSITIVE))
}

fn case_t<T: Sc>(rng: &mut Rng, case: u64, out: &mut CaseOut) {
    let stream = "fits";
    let Some((spec, class)) = gen_stat_spec(rng, T::IS_F64) else {
        out.inconcl("shape not constructible");
        return;
    };
    let cfg = LmCfg::default_cfg();
    let Some(r) = fit_stats::<T>(&spec, &cfg, class) else {
        violation(out, stream, case, "valid problem rejected", spec.to_json());
        return;
    };
    let sf = match r {
        Ok(sf) => sf,
        Err(_) => {
            out.count("fit_with_statistics_err");
            return;
        }
    };
    out.seen("class", class);
    out.count(if sf.stats.is_raw() { "fits_of_builder_models_without_wrapper" } else if sf.stats.is_clone() { "cloned_statistics_objects_judged" } else { "fits_through_the_forwarding_wrapper" });
    if let Some(cp) = &sf.clone_problem {
        out.evals += 1;
        violation(out, stream, case, cp.clone(), json!({"problem": spec.to_json()}));
        return;
    }
    let invariant_first = matches!(&spec.model, ModelKind::Built(ms) | ModelKind::Hand(ms) if ms.basis.iter().position(|b| b.params().is_empty()).is_some_and(|i| i + 1 < ms.basis.len()));
    if invariant_first {
        out.count("models_with_a_parameter_free_function_before_other_functions");
    }
    if case < 16 {
        out.sample(json!({"class": class, "N": sf.n, "M": sf.m, "P": sf.p, "degrees_of_freedom": sf.nu, "alpha_hat": sf.alpha, "scalar": T::NAME}));
    }
    out.seen("shape_M_P", format!("{}x{}", sf.m, sf.p));
    let k = sf.m + sf.p;
    let cov_t = sf.stats.covariance_matrix().clone();
    let cov = widen(&cov_t);
    out.evals += 1;
    out.nontrivial.push(spec.hash());
    let detail = |extra: serde_json::Value| json!({"problem": spec.to_json(), "alpha_hat": sf.alpha, "c_hat": sf.c.d, "covariance": fmt_vec(&cov.d), "extra": extra});
    if cov.r != k || cov.c != k {
        violation(out, stream, case, format!("covariance matrix is {}x{}, expected {k}x{k} (M={}, P={})", cov.r, cov.c, sf.m, sf.p), detail(json!(null)));
        return;
    }
    // --- demands that need no reference: every Ok result ---
    let lin = sf.stats.linear_coefficients_variance();
    let nonlin = sf.stats.nonlinear_parameters_variance();
    let diag_bits: Vec<u64> = (0..k).map(|i| cov_t[(i, i)].bits()).collect();
    let lin_bits: Vec<u64> = lin.iter().map(|v| v.bits()).collect();
    let nonlin_bits: Vec<u64> = nonlin.iter().map(|v| v.bits()).collect();
    if lin_bits != diag_bits[..sf.m] || nonlin_bits != diag_bits[sf.m..] {
        violation(out, stream, case, format!("variance accessors are not the diagonal segments [0,M) and [M,M+P) of the covariance (M={}, P={}): linear {:?}, nonlinear {:?}, diagonal {:?}", sf.m, sf.p,
            lin.iter().map(|v| v.w()).collect::<Vec<_>>(), nonlin.iter().map(|v| v.w()).collect::<Vec<_>>(), (0..k).map(|i| cov.at(i, i)).collect::<Vec<_>>()), detail(json!(null)));
        return;
    }
    for i in 0..k {
        let d = cov.at(i, i);
        if !(d >= 0.0) {
            violation(out, stream, case, format!("covariance diagonal entry {i} is {d:e} (must be non-negative) [{class}]"), detail(json!({"index": i})));
            return;
        }
    }
    // variances of quantities in tiny or huge units may leave the normal range of f32 (sub-normal or
    // flushed to zero): nothing further can be demanded of them in that width
    {
        let (tiny, huge) = if T::IS_F64 { (1e-290, 1e290) } else { (1e-30, 1e30) };
        if (0..k).any(|i| cov.at(i, i).is_finite() && (cov.at(i, i) < tiny || cov.at(i, i) > huge)) {
            out.inconcl("a variance lies outside the normal range of the scalar type");
            return;
        }
    }
    if !cov.all_finite() {
        // a variance beyond the range of the scalar type (f32: > 3.4e38) is +inf: non-negative, but
        // nothing further can be demanded of quantities derived from it
        out.inconcl("a covariance entry overflows the range of the scalar type");
        return;
    }
    let corr_t = sf.stats.calculate_correlation_matrix();
    // the deprecated accessor is documented as a drop-in replacement
    if crate::sc::bits_of(&sf.stats.correlation_matrix_deprecated()) != crate::sc::bits_of(&corr_t) {
        violation(out, stream, case, "correlation_matrix() (deprecated alias) differs from calculate_correlation_matrix()", json!({"problem": spec.to_json()}));
        return;
    }
    let corr = widen(&corr_t);
    for i in 0..k {
        for j in 0..k {
            // reference in f64 from the reported (widened) covariance; roots taken separately so that
            // the oracle itself cannot overflow
            let denom = cov.at(i, i).sqrt() * cov.at(j, j).sqrt();
            let want = cov.at(i, j) / denom;
            let got = corr.at(i, j);
            if denom > 0.0 && denom.is_finite() && ulps::<T>(got, want) > 8.0 && (got - want).abs() > 8.0 * T::EPS {
                violation(out, stream, case, format!("correlation[{i},{j}] = {got:e} is not cov/sqrt(cov_ii·cov_jj) = {want:e}"), detail(json!(null)));
                return;
            }
            if i == j && cov.at(i, i) > 0.0 && ulps::<T>(got, 1.0) > 4.0 {
                violation(out, stream, case, format!("correlation diagonal entry {i} is {got:e}, not 1"), detail(json!(null)));
                return;
            }
            if cov.at(i, i) > 0.0 && cov.at(j, j) > 0.0 && !(got.abs() <= 1.0 + 64.0 * T::EPS) {
                violation(out, stream, case, format!("correlation[{i},{j}] = {got:e} lies outside [-1,1] [{class}]"), detail(json!({"i": i, "j": j})));
                return;
            }
        }
    }
    // --- value oracles: only where (H^T H)^-1 exists numerically ---
    let (_j, h) = oracle_jacobians::<T>(&spec, &sf.alpha, &sf.c);
    if !h.all_finite() {
        out.inconcl("non-finite model Jacobian");
        return;
    }
    let Some((d, g, kappa)) = scaled_normal_matrix(&h) else {
        out.inconcl("normal matrix not numerically positive definite (value oracles skipped; sign/range/slicing still checked)");
        return;
    };
    if kappa * T::EPS > 1e-3 {
        out.inconcl("normal matrix not numerically positive definite (value oracles skipped; sign/range/slicing still checked)");
        return;
    }
    // sigma^2 from the oracle's own residual (independent of reduced_chi2() and weighted_residuals());
    // only where that residual is not dominated by rounding - otherwise the library's value is used
    let lib_sigma2 = sf.stats.reduced_chi2().w();
    let mut sigma2_rel = 0.0;
    let sigma2 = match oracle_sigma2::<T>(&spec, &sf.alpha, &sf.c, sf.nu) {
        Some((s2, rel)) => {
            sigma2_rel = rel;
            out.count("sigma2_from_the_oracle_residual");
            out.ratio("reduced_chi2_vs_oracle_sigma2", ((lib_sigma2 - s2) / s2).abs() / rel);
            if !(((lib_sigma2 - s2) / s2).abs() <= rel) {
                violation(out, stream, case, format!("the sigma^2 reported as reduced_chi2 ({lib_sigma2:e}) is not |W(y - Phi(alpha^)c^)|^2/(N-M-P) = {s2:e} (relative tolerance {rel:.2e}) [{class}]"), detail(json!({"oracle_sigma2": s2})));
                return;
            }
            s2
        }
        None => {
            out.count("sigma2_taken_from_the_library (residual dominated by rounding)");
            lib_sigma2
        }
    };
    // column-equilibrated form of Cov·(H^T H) = sigma^2 I:  (D Cov D)·G = sigma^2 I
    let cov_s = Mat::from_fn(k, k, |i, j| d[i] * cov.at(i, j) * d[j]);
    if !cov_s.all_finite() || !(sigma2.is_finite()) {
        out.inconcl("scaled covariance not representable");
        return;
    }
    let prod = cov_s.mul(&g);
    let mut worst: f64 = 0.0;
    for i in 0..k {
        for j in 0..k {
            let want = if i == j { sigma2 } else { 0.0 };
            worst = worst.max((prod.at(i, j) - want).abs());
        }
    }
    // the oracle's sigma^2 is itself only known to the relative accuracy `sigma2_rel`
    let tol = (TAU_COV * T::EPS * kappa * (k as f64) + sigma2_rel) * sigma2.max(f64::MIN_POSITIVE);
    out.count("value_oracle_evaluated");
    out.ratio("cov_times_normal_matrix", worst / tol.max(f64::MIN_POSITIVE));
    if sigma2 > 0.0 && worst > tol {
        violation(out, stream, case, format!("(D·Cov·D)·G differs from sigma^2·I by {worst:e} (tolerance {tol:e}, scaled kappa={kappa:.2e}, sigma^2={sigma2:e}; D = column norms of H, G = scaled H^T H): covariance is not sigma^2 (H^T H)^-1 in the order (c, alpha)"), detail(json!({"column_norms_of_H": d, "sigma2": sigma2})));
        return;
    }
    // symmetry (in the scaled form, so that entries of very different units are comparable)
    let mut asym: f64 = 0.0;
    for i in 0..k {
        for j in 0..i {
            asym = asym.max((cov_s.at(i, j) - cov_s.at(j, i)).abs());
        }
    }
    let tol_s = TAU_COV * T::EPS * kappa * cov_s.max_abs();
    out.ratio("asymmetry", asym / tol_s.max(f64::MIN_POSITIVE));
    if asym > tol_s {
        violation(out, stream, case, format!("covariance is not symmetric: max scaled |C_ij - C_ji| = {asym:e} (tolerance {tol_s:e})"), detail(json!(null)));
        return;
    }
    if case < 3 {
        out.sample(json!({"class": class, "M": sf.m, "P": sf.p, "N": sf.n, "scaled_kappa_HtH": kappa, "covariance_diagonal": (0..k).map(|i| cov.at(i, i)).collect::<Vec<_>>()}));
    }
    let _ = (bits_of(&cov_t), Mat::zeros(0, 0));
}

pub fn run(ctx: &Ctx) {
    ctx.rule("successful fit_with_statistics results over three problem classes: shape sweep (M in 1..5, P in 1..4 incl. shared parameters and two-parameter functions, degrees of freedom 1..30, noise 1e-4..1e-1, all weight classes), separated decays, and an over-parameterised noisy class (three decays + offset, N-M-P in 1..4, up to 10% noise) in which fits collapse basis functions onto each other; f32/f64. Every Ok: diagonal finite and >= 0, variance accessors bit-equal to the diagonal segments [0,M) / [M,M+P), correlation == cov/sqrt(cov_ii cov_jj) (4 ulp), unit diagonal, entries in [-1,1]. Where the oracle's Jacobi eigen-solver finds H^T H positive definite with kappa·eps <= 1e-3: Cov·(H^T H) == sigma^2·I with H = W[Phi | D_k c] built by the oracle in the documented order, and symmetry. distinct = problem hash");
    ctx.assume("value oracles are inconclusive where the normal matrix is numerically singular; sign, range and slicing are checked on every Ok");
    let t = ctx.tier;
    ctx.run_cases("fits", t.pick(16000, 800000), t.pick(20.0, 900.0), |r, c, o| if c % 4 == 0 { case_t::<f32>(r, c, o) } else { case_t::<f64>(r, c, o) });
}
