//! C17 — builder-made models report misuse as errors and keep their state intact

use crate::coded::*;
use crate::rng::Rng;
use crate::run::*;
use crate::sc::{bits_of, Sc};
use nalgebra::DVector;
use serde_json::json;
use std::sync::atomic::Ordering::SeqCst;
use varpro::prelude::*;

/// returns (observations, misuse operations performed, first problem found)
pub fn check_history<T: Sc>(rng: &mut Rng, spec: &CodedSpec, len: usize) -> (u64, u64, Option<String>) {
    let np = spec.names.len();
    let n = spec.x.len();
    let m = spec.funcs.len();
    let a0: Vec<f64> = (0..np).map(|i| 0.4 + 0.6 * i as f64).collect();
    let mb = Misbehave::new();
    let mut model = match build_coded::<T>(spec, &a0, &mb) {
        Ok(md) => md,
        Err(e) => return (1, 0, Some(format!("valid specification rejected: {e}"))),
    };
    // a parameter vector of the wrong length is also wrong when it arrives as the initial guess, whatever
    // the position of that call: either the builder refuses, or the model it returns is consistent
    // (params() of the declared length, evaluation without a panic)
    if rng.chance(0.2) && spec.funcs.last().map(|f| !f.params.is_empty()).unwrap_or(false) {
        let l = if rng.chance(0.5) { np + rng.int(1, 3) } else { np - 1 };
        let wrong: Vec<f64> = (0..l).map(|i| 0.4 + 0.6 * i as f64).collect();
        if let Ok(bad) = build_coded_opts::<T>(spec, &wrong, &mb, true) {
            let plen = bad.params().len();
            let r = crate::run::guarded(|| (bad.eval().is_ok(), (0..np).all(|k| bad.eval_partial_deriv(k).is_ok())));
            match r {
                Err((loc, msg)) => return (1, 1, Some(format!("a model built with an initial guess of length {l} for {np} parameters panics when evaluated: {msg} at {loc}"))),
                Ok(_) if plen != np => return (1, 1, Some(format!("a model built with an initial guess of length {l} reports {plen} parameters, {np} were declared"))),
                Ok(_) => {}
            }
        }
    }
    let mut accepted: Vec<T> = a0.iter().map(|v| T::of(*v)).collect();
    let snapshot = |model: &varpro::model::SeparableModel<T>| -> Result<Vec<u64>, String> {
        let mut bits = bits_of(&model.params());
        bits.extend(bits_of(&model.eval().map_err(|e| format!("eval failed on a valid state: {e}"))?));
        for k in 0..np {
            bits.extend(bits_of(&model.eval_partial_deriv(k).map_err(|e| format!("eval_partial_deriv({k}) failed on a valid state: {e}"))?));
        }
        Ok(bits)
    };
    let mut reference = match snapshot(&model) {
        Ok(b) => b,
        Err(e) => return (1, 0, Some(e)),
    };
    let mut obs = 1;
    let mut misuse = 0;
    let wrong_len = |rng: &mut Rng| -> usize {
        match rng.below(4) {
            0 => 0,
            1 => n.saturating_sub(1),
            2 => n + 1,
            _ => n + rng.int(2, 9),
        }
    };
    for step in 0..len {
        obs += 1;
        match rng.below(7) {
            0 => {
                // valid update
                accepted = (0..np).map(|i| T::of(0.2 + 0.5 * i as f64 + rng.range(0.0, 0.3))).collect();
                if let Err(e) = model.set_params(DVector::from_vec(accepted.clone())) {
                    return (obs, misuse, Some(format!("step {step}: set_params rejected a vector of the right length: {e}")));
                }
                reference = match snapshot(&model) {
                    Ok(b) => b,
                    Err(e) => return (obs, misuse, Some(format!("step {step}: {e}"))),
                };
            }
            1 | 2 => {
                // a value closure returns a vector of the wrong length
                let j = rng.below(m);
                let l = wrong_len(rng);
                if l == n {
                    continue;
                }
                mb.len.store(l, SeqCst);
                mb.hit.store(false, SeqCst);
                mb.target.store((j * 16) as i64, SeqCst);
                // in a third of the cases a second function misbehaves in the same evaluation, with a
                // length that makes the total number of returned elements come out right (or not)
                let mut second = String::new();
                if m >= 2 && rng.chance(0.34) {
                    let j2 = (j + 1 + rng.below(m - 1)) % m;
                    let l2 = if rng.chance(0.7) && 2 * n >= l { 2 * n - l } else { wrong_len(rng) };
                    if l2 != n {
                        mb.len2.store(l2, SeqCst);
                        mb.target2.store((j2 * 16) as i64, SeqCst);
                        second = format!(" and function {j2} a vector of length {l2}");
                    }
                }
                let r = model.eval();
                mb.target.store(-1, SeqCst);
                mb.target2.store(-1, SeqCst);
                misuse += 1;
                if let Ok(mat) = r {
                    return (obs, misuse, Some(format!("step {step}: function {j} returned a vector of length {l}{second} (N={n}) but eval() returned Ok with a {}x{} matrix", mat.nrows(), mat.ncols())));
                }
            }
            6 if rng.chance(0.5) => {
                // every basis function returns the same wrong length (closures written against another grid)
                let l = wrong_len(rng);
                if l == n {
                    continue;
                }
                mb.all_values.store(l as i64, SeqCst);
                let r = model.eval();
                mb.all_values.store(-1, SeqCst);
                misuse += 1;
                if let Ok(mat) = r {
                    return (obs, misuse, Some(format!("step {step}: every basis function returned a vector of length {l} (N={n}) but eval() returned Ok with a {}x{} matrix", mat.nrows(), mat.ncols())));
                }
            }
            3 => {
                // a derivative closure returns a vector of the wrong length
                let cands: Vec<usize> = (0..m).filter(|j| !spec.funcs[*j].params.is_empty()).collect();
                if cands.is_empty() {
                    continue;
                }
                let j = *rng.pick(&cands);
                let q = rng.below(spec.funcs[j].params.len());
                let k = spec.names.iter().position(|nm| *nm == spec.funcs[j].params[q]).unwrap();
                let l = wrong_len(rng);
                if l == n {
                    continue;
                }
                mb.len.store(l, SeqCst);
                mb.hit.store(false, SeqCst);
                mb.target.store((j * 16 + 1 + q) as i64, SeqCst);
                let r = model.eval_partial_deriv(k);
                let hit = mb.hit.load(SeqCst);
                mb.target.store(-1, SeqCst);
                misuse += 1;
                if !hit {
                    return (obs, misuse, Some(format!("step {step}: eval_partial_deriv({k}) did not call the derivative supplied for parameter {} of function {j}", spec.names[k])));
                }
                if r.is_ok() {
                    return (obs, misuse, Some(format!("step {step}: derivative {q} of function {j} returned a vector of length {l} (N={n}) but eval_partial_deriv({k}) returned Ok")));
                }
            }
            4 => {
                // derivative index out of range
                // P, P+1, far beyond, and indices whose low 32 bits are a valid index
                let low = rng.below(np);
                let k = match rng.below(5) {
                    0 => np,
                    1 => np + 1,
                    2 => np + rng.int(2, 1000),
                    3 => (rng.int(1, 9) << 32) + low,
                    _ => *rng.pick(&[usize::MAX, usize::MAX - u32::MAX as usize + low, (1usize << 63) + low, u32::MAX as usize, u32::MAX as usize + 1]),
                };
                misuse += 1;
                if model.eval_partial_deriv(k).is_ok() {
                    return (obs, misuse, Some(format!("step {step}: eval_partial_deriv({k}) with P={np} returned Ok")));
                }
            }
            5 => {
                // parameter vector of the wrong length
                let l = match rng.below(4) { 0 => 0, 1 => np - 1, 2 => np + 1, _ => np + rng.int(2, 7) };
                if l == np {
                    continue;
                }
                misuse += 1;
                let v: Vec<T> = (0..l).map(|_| T::of(rng.range(5.0, 9.0))).collect();
                if model.set_params(DVector::from_vec(v)).is_ok() {
                    return (obs, misuse, Some(format!("step {step}: set_params accepted a vector of length {l} for P={np}")));
                }
            }
            _ => {}
        }
        // after every operation: state intact, shapes right
        match snapshot(&model) {
            Ok(b) => {
                if b != reference {
                    return (obs, misuse, Some(format!("step {step}: after a rejected/failed operation params() or a subsequent evaluation differs from before (accepted alpha {:?})", accepted.iter().map(|v| v.w()).collect::<Vec<_>>())));
                }
            }
            Err(e) => return (obs, misuse, Some(format!("step {step}: {e}"))),
        }
        if let Ok(mat) = model.eval() {
            if mat.nrows() != n || mat.ncols() != m {
                return (obs, misuse, Some(format!("step {step}: eval returned {}x{}, expected {n}x{m}", mat.nrows(), mat.ncols())));
            }
        }
    }
    (obs, misuse, None)
}

fn case(rng: &mut Rng, case: u64, out: &mut CaseOut, len: usize) {
    let stream = "misuse-histories";
    let spec = random_coded(rng, 6, 9);
    let r = match guarded(|| {
        let mut r2 = rng.clone();
        let res = if case % 3 == 0 { check_history::<f32>(&mut r2, &spec, len) } else { check_history::<f64>(&mut r2, &spec, len) };
        res
    }) {
        Ok(r) => r,
        Err((loc, msg)) => {
            out.evals += 1;
            violation(out, stream, case, format!("panic at {loc}: {msg}"), json!({"names": spec.names, "functions": format!("{:?}", spec.funcs)}));
            return;
        }
    };
    out.evals += r.0;
    out.add("misuse_operations", r.1);
    if r.1 > 0 {
        out.nontrivial.push(crate::rng::hash_u64s([crate::rng::fnv(format!("{:?}", spec).as_bytes()), case]));
    }
    if let Some(p) = r.2 {
        violation(out, stream, case, p, json!({"names": spec.names, "functions": format!("{:?}", spec.funcs), "N": spec.x.len()}));
    }
    if case < 2 {
        out.sample(json!({"names": spec.names, "functions": spec.funcs.iter().map(|f| f.params.clone()).collect::<Vec<_>>(), "N": spec.x.len(), "history_length": len, "misuse_operations": r.1}));
    }
}

pub fn sanitizer_workload(seed: u64, cases: u64, nmax: usize, len: usize) -> (u64, u64) {
    let mut obs = 0;
    let mut sum = 0u64;
    for c in 0..cases {
        let mut rng = Rng::keyed(seed, "C17/sanitizer", c);
        let spec = random_coded(&mut rng, 4, nmax.max(1));
        let r = if c % 2 == 0 { check_history::<f32>(&mut rng, &spec, len) } else { check_history::<f64>(&mut rng, &spec, len) };
        obs += r.0;
        if r.2.is_some() {
            sum += 1;
        }
    }
    (obs, sum)
}

/// run `vpmini <prop>` under Miri in `shards` processes
pub fn miri_shards(ctx: &Ctx, prop: &str, shards: u64, cases: &str, nmax: &str) {
    let results = std::sync::Mutex::new(Vec::new());
    std::thread::scope(|s| {
        for sh in 0..shards {
            let results = &results;
            s.spawn(move || {
                let out = std::process::Command::new("cargo")
                    .current_dir(format!("{VERIF_DIR}/harness"))
                    .env("MIRIFLAGS", "-Zmiri-tree-borrows -Zmiri-permissive-provenance -Zmiri-deterministic-floats -Zmiri-ignore-leaks -Zmiri-disable-isolation")
                    .env("CARGO_NET_OFFLINE", "true")
                    .env("CARGO_TARGET_DIR", format!("{VERIF_DIR}/harness/target-miri"))
                    .args(["+nightly", "miri", "run", "--offline", "--quiet", "--bin", "vpmini", "--", prop, &(ctx.seed * 100 + sh).to_string(), cases, nmax, "8"])
                    .output();
                results.lock().unwrap().push((sh, out));
            });
        }
    });
    let mut clean = 0;
    let mut observations = 0u64;
    for (sh, r) in results.into_inner().unwrap() {
        match r {
            Ok(o) => {
                let text = format!("{}{}", String::from_utf8_lossy(&o.stdout), String::from_utf8_lossy(&o.stderr));
                if o.status.success() {
                    if let Some(l) = text.lines().find(|l| l.starts_with("sanitizer-workload")) {
                        let f: Vec<&str> = l.split_whitespace().collect();
                        observations += f.get(2).and_then(|x| x.parse::<u64>().ok()).unwrap_or(0);
                        let problems = f.get(3).map(|x| u64::from_str_radix(x, 16).unwrap_or(0)).unwrap_or(0);
                        if problems > 0 && prop != "C10" && prop != "C11" {
                            let mut oo = CaseOut::default();
                            oo.evals += 1;
                            violation(&mut oo, "miri", sh, format!("the {prop} monitor found {problems} problem(s) when run under Miri"), json!({"output": text.chars().take(2000).collect::<String>()}));
                            ctx.merge_public(oo);
                        }
                    }
                    clean += 1;
                } else if text.contains("Undefined Behavior") {
                    let mut oo = CaseOut::default();
                    oo.evals += 1;
                    violation(&mut oo, "miri", sh, format!("Miri reported undefined behaviour in the {prop} workload"), json!({"output": text.chars().take(5000).collect::<String>()}));
                    ctx.merge_public(oo);
                } else {
                    ctx.harness_error(format!("miri shard {sh} for {prop} failed without a UB report: {}", text.chars().take(500).collect::<String>()));
                }
            }
            Err(e) => ctx.harness_error(format!("cannot run cargo miri: {e}")),
        }
    }
    ctx.extra("sanitizer_engines", json!({"miri": {"shards": shards, "clean_shards": clean, "observations": observations}}));
}

pub fn run(ctx: &Ctx) {
    ctx.rule("builder-made models (1..6 parameters, functions of arity 1..6 over ordered subsets, invariant functions, N in 1..9, f32/f64) driven through histories of 12 (quick) / 40 (thorough) operations mixing valid updates with misuse: a function or a derivative closure at a random position returning a vector that is empty / one shorter / one longer / much longer than N (in a third of the function cases a second function misbehaves in the same evaluation with the complementary length 2N-l; sometimes every basis function returns the same wrong length), derivative indices P, P+1, far beyond, and indices >= 2^32 whose low 32 bits are a valid index, parameter vectors of length 0, P-1, P+1 and more. Each misuse must return Err (never a panic, never Ok with a mis-shaped matrix); after every operation params(), eval() and every eval_partial_deriv(k) are compared bitwise with the snapshot taken after the last accepted update. non-trivial = history contains at least one misuse operation; distinct = (specification, case)");
    let t = ctx.tier;
    let len = t.pick(12, 40);
    ctx.run_cases("misuse-histories", t.pick(25000, 450000), t.pick(15.0, 900.0), |r, c, o| case(r, c, o, len));
    if t == Tier::Thorough && ctx.replay.is_none() {
        miri_shards(ctx, "C17", 8, "6", "4");
    } else {
        ctx.extra("sanitizer_engines", json!("Miri runs in the thorough tier only"));
    }
}
