//! C03 — the Jacobian is the Kaufman variable-projection Jacobian of the residuals

use crate::gen::*;
use crate::la::{self, Mat};
use crate::oracle::*;
use crate::problem::*;
use crate::rng::Rng;
use crate::run::*;
use crate::sc::{widen, Sc};
use crate::spy::SpyCtl;
use nalgebra::DVector;
use serde_json::json;
use std::sync::atomic::Ordering::SeqCst;

fn kappa_limit<T: Sc>() -> f64 {
    if T::IS_F64 {
        1e8
    } else {
        1e3
    }
}

/// reference + orthogonality check of one Jacobian; returns false when a violation was recorded
#[allow(clippy::too_many_arguments)]
pub fn check_jacobian<T: Sc>(out: &mut CaseOut, stream: &str, case: u64, spec: &ProblemSpec, alpha: &[f64], coeff: &Mat, jac: &Mat, whence: &str) -> bool {
    let v = View::new::<T>(spec, alpha);
    if !v.finite() || !coeff.all_finite() {
        out.inconcl("non-finite state");
        return true;
    }
    if !(1e-100..=1e100).contains(&v.sigma1()) {
        out.inconcl("extreme scale");
        return true;
    }
    if v.sigma_min() <= 16.0 * T::EPS || v.kappa() > kappa_limit::<T>() {
        out.inconcl("weighted basis matrix not numerically of full column rank (property does not apply)");
        return true;
    }
    let np = spec.model.np();
    let dphis: Vec<Mat> = (0..np).map(|k| spec.model.dphi64::<T>(alpha, k)).collect();
    if dphis.iter().any(|d| !d.all_finite()) {
        out.inconcl("non-finite derivative");
        return true;
    }
    out.evals += 1;
    if jac.r != v.n * spec.s() || jac.c != np {
        violation(out, stream, case, format!("Jacobian has shape {}x{}, expected {}x{} ({whence})", jac.r, jac.c, v.n * spec.s(), np), spec.to_json());
        return false;
    }
    if !jac.all_finite() {
        violation(out, stream, case, format!("non-finite Jacobian entry for finite model values ({whence})"), json!({"problem": spec.to_json(), "alpha": alpha}));
        return false;
    }
    // non-trivial: some column is non-zero and S>1 or non-constant weights
    let nontrivial = jac.max_abs() > 0.0 && (spec.s() > 1 || spec.w.as_ref().map(|w| w.iter().any(|x| *x != w[0])).unwrap_or(false));
    if nontrivial {
        out.nontrivial.push(crate::rng::hash_u64s([spec.hash(), crate::rng::hash_u64s(alpha.iter().map(|a| a.to_bits()))]));
    }
    let (r_ref, r_orth) = jacobian_ratios(&v, coeff, jac, &dphis, T::EPS, 0.0);
    if r_ref <= 1.0 && r_orth <= 1.0 {
        out.ratio("jacobian_reference", r_ref);
        out.ratio("jacobian_orthogonality", r_orth);
        return true;
    }
    out.count("strict_check_failures");
    let e = dependency_svd_error_at::<T>(spec, alpha);
    if let Some(e) = e {
        if e > KF1_MIN_E * T::EPS {
            let (a_ref, a_orth) = jacobian_ratios(&v, coeff, jac, &dphis, T::EPS, e * ((v.n * v.m) as f64).sqrt());
            if a_ref <= 1.0 && a_orth <= 1.0 {
                out.ratio("jacobian_adjusted_kf1", a_ref.max(a_orth));
                out.known.push(KnownHit {
                    stream: stream.into(),
                    case,
                    signature: "KF-1:svd-reconstruction-error".into(),
                    what: format!("Jacobian reference ratio {r_ref:.3e} / orthogonality {r_orth:.3e}, explained by measured SVD reconstruction error e={e:.3e}"),
                    detail: json!({"problem": spec.to_json(), "alpha": alpha, "e": e, "whence": whence}),
                });
                return true;
            }
        }
    }
    violation(out, stream, case, format!("Jacobian is not the Kaufman Jacobian -(I-P)·W·D_k·C ({whence}): reference ratio {r_ref:.3e}, orthogonality ratio {r_orth:.3e}, dependency SVD error {e:?}, kappa {:.2e}", v.kappa()),
        json!({"problem": spec.to_json(), "alpha": alpha, "coeff": coeff.d, "jacobian": jac.d, "reference_ratio": r_ref, "orthogonality_ratio": r_orth, "e": e}));
    false
}

fn states_case<T: Sc>(rng: &mut Rng, case: u64, out: &mut CaseOut) {
    let stream = "states";
    let g = gen_problem(rng, &GenOpts { nmax: if T::IS_F64 { 80 } else { 40 }, smax: 7, ..Default::default() });
    let mut spec = g.spec;
    spec.alpha0 = wide_alpha(rng, &g.alpha_true);
    if rng.chance(0.3) {
        // a user threshold may truncate the *coefficients*; the projector of the Jacobian is still the
        // one onto the whole range of the (full column rank) weighted basis matrix
        spec.eps = Some(rng.logrange(1e-6, 0.3) * rng.sign());
        out.count("states_with_user_threshold");
    }
    let ctl = SpyCtl::new();
    let mut prob = match build_problem::<T>(&spec, &ctl) {
        Ok(p) => p,
        Err(e) => {
            violation(out, stream, case, format!("valid problem rejected by the builder: {e}"), spec.to_json());
            return;
        }
    };
    out.seen("flavour", format!("{}{}", if spec.mrhs { "mrhs" } else { "single" }, if spec.par { "+parallel" } else { "" }));
    out.seen("weights", g.wclass.name());
    out.seen("basis", spec.model.spec().map(|s| s.basis.iter().map(|b| b.tag().split('(').next().unwrap().to_string()).collect::<Vec<_>>().join("+")).unwrap_or_default());
    let nsteps = rng.int(1, 6);
    for step in 0..=nsteps {
        let alpha: Vec<f64> = prob.params().iter().map(|v| v.w()).collect();
        if let (Some(c), Some(j)) = (prob.coeffs(), prob.jacobian()) {
            if !check_jacobian::<T>(out, stream, case, &spec, &alpha, &widen(&c), &widen(&j), &format!("state {step}")) {
                return;
            }
        } else if prob.coeffs().is_some() {
            out.evals += 1;
            violation(out, stream, case, "coefficients present and all derivatives evaluate, but no Jacobian", json!({"problem": spec.to_json(), "alpha": alpha}));
            return;
        }
        if step < nsteps {
            let fresh = wide_alpha(rng, &g.alpha_true);
            let a = next_alpha(rng, &alpha, fresh);
            prob.set_params(&DVector::from_iterator(a.len(), a.iter().map(|v| T::of(*v))));
        }
    }
    // a failing derivative must give no Jacobian at all (each k in turn)
    let np = spec.model.np();
    for k in 0..np {
        let base = ctl.calls();
        // the k-th derivative call of the next jacobian() is call index base + k in the sequential flavour;
        // in the parallel flavour the order is schedule dependent, any single failing derivative call will do
        let injected_before = ctl.n_injected.load(SeqCst);
        ctl.set_fault((base + k as u64) as i64, false);
        let j = prob.jacobian();
        ctl.set_fault(-1, false);
        out.evals += 1;
        if ctl.n_injected.load(SeqCst) == injected_before {
            // the problem did not evaluate that derivative (nothing failed): nothing is demanded
            out.count("derivative_failure_not_consumed");
            continue;
        }
        out.count("derivative_failures_injected");
        if j.is_some() && prob.coeffs().is_some() {
            violation(out, stream, case, format!("a partial derivative failed to evaluate but a Jacobian was produced (failing call {k} of {np})"), json!({"problem": spec.to_json()}));
            return;
        }
        let _ = ctl.n_injected.load(SeqCst);
    }
    if case < 2 {
        out.sample(json!({"stream": stream, "problem": spec.to_json(), "states": nsteps + 1}));
    }
}

/// builder-made models over position-coded closures (arity 1..10, arbitrary ordered subsets of the model
/// parameters, derivatives supplied in random order, invariant functions anywhere) inside problems: the
/// Jacobian must be built from exactly the D_k that the specification defines
fn coded_case<T: Sc>(rng: &mut Rng, case: u64, out: &mut CaseOut) {
    let stream = "coded-builder-models";
    let mut cs = crate::coded::random_coded(rng, 8, 4);
    let m = cs.funcs.len();
    let n = m + rng.int(1, 12);
    cs.x = (0..n).map(|i| 0.37 * i as f64 + rng.range(0.0, 0.1)).collect();
    let np = cs.names.len();
    let s = *rng.pick(&[1usize, 1, 2, 3]);
    let draw = |rng: &mut Rng| -> Vec<f64> { (0..np).map(|i| 0.3 + 0.71 * i as f64 + rng.range(0.0, 0.2)).collect() };
    let alpha0 = draw(rng);
    let y = Mat::from_fn(n, s, |_, _| rng.normal() * 3.0);
    let w = if rng.chance(0.5) { Some((0..n).map(|_| rng.range(0.3, 2.0) * rng.sign()).collect()) } else { None };
    let spec = ProblemSpec { model: ModelKind::Coded(cs), alpha0, y, w, eps: None, mrhs: s > 1 || rng.chance(0.3), par: rng.chance(0.4) };
    let Ok(mut prob) = build_problem_auto::<T>(&spec) else {
        violation(out, stream, case, "valid problem rejected by the builder", spec.to_json());
        return;
    };
    out.seen("coded_arities", if let ModelKind::Coded(c) = &spec.model { format!("{}", c.funcs.iter().map(|f| f.params.len()).max().unwrap_or(0)) } else { String::new() });
    for step in 0..3 {
        let alpha: Vec<f64> = prob.params().iter().map(|v| v.w()).collect();
        if let (Some(c), Some(j)) = (prob.coeffs(), prob.jacobian()) {
            if !check_jacobian::<T>(out, stream, case, &spec, &alpha, &widen(&c), &widen(&j), &format!("coded model, state {step}")) {
                return;
            }
        }
        let fresh = draw(rng);
        let a = next_alpha(rng, &alpha, fresh);
        prob.set_params(&DVector::from_iterator(a.len(), a.iter().map(|v| T::of(*v))));
    }
}

/// states in which the basis almost reproduces the derivative columns: three close decays plus offset and
/// linear term on a short interval, so that |(I-P) W D_k C| is 1e-3 .. 1e-5 of |W D_k C| (full rank, moderate
/// condition number) - sign and size of such nearly vanishing columns are part of the formula too
fn near_dependent_case<T: Sc>(rng: &mut Rng, case: u64, out: &mut CaseOut) {
    use crate::zoo::{grid, Basis, ModelSpec};
    let stream = "nearly-dependent-derivatives";
    let n = rng.int(12, 40);
    let t1 = rng.range(0.8, 1.2);
    let taus = vec![t1, t1 * rng.range(1.4, 1.6), t1 * rng.range(2.0, 2.4)];
    let x = grid(rng, n, 0.0, 3.0 * t1, false);
    let mspec = ModelSpec { x, basis: vec![Basis::Exp(0), Basis::Exp(1), Basis::Exp(2), Basis::Const, Basis::Lin], np: 3 };
    let s = *rng.pick(&[1usize, 1, 2]);
    let g = gen_problem_for(rng, &GenOpts { noise: 0.05, force_s: Some(s), ..Default::default() }, mspec, taus.clone());
    let mut spec = g.spec;
    spec.alpha0 = perturb_alpha(rng, &taus, 0.03);
    let Ok(prob) = build_problem_auto::<T>(&spec) else {
        violation(out, stream, case, "valid problem rejected by the builder", spec.to_json());
        return;
    };
    let alpha: Vec<f64> = prob.params().iter().map(|v| v.w()).collect();
    if let (Some(c), Some(j)) = (prob.coeffs(), prob.jacobian()) {
        let _ = check_jacobian::<T>(out, stream, case, &spec, &alpha, &widen(&c), &widen(&j), "nearly dependent derivative columns");
    }
}

fn objective_at<T: Sc>(spec: &ProblemSpec, alpha: &[f64]) -> Option<f64> {
    let mut s = spec.clone();
    s.alpha0 = alpha.to_vec();
    let p = build_problem::<T>(&s, &SpyCtl::new()).ok()?;
    let r = p.residuals()?;
    let r: Vec<f64> = r.iter().map(|v| v.w()).collect();
    Some(la::dot(&r, &r))
}

/// 2·Jᵀr is the gradient of ‖r(α)‖² — Richardson-extrapolated central differences (f64 only)
fn gradient_case(rng: &mut Rng, case: u64, out: &mut CaseOut) {
    let stream = "gradient";
    let g = gen_problem(rng, &GenOpts { nmax: 40, smax: 3, noise: 0.1, ..Default::default() });
    let mut spec = g.spec;
    spec.alpha0 = perturb_alpha(rng, &g.alpha_true, 0.4);
    let alpha = spec.alpha0.clone();
    let v = View::new::<f64>(&spec, &alpha);
    if !v.finite() || v.kappa() > 1e4 {
        out.inconcl("kappa > 1e4: numerical differentiation not meaningful");
        return;
    }
    let Ok(prob) = build_problem_auto::<f64>(&spec) else {
        violation(out, stream, case, "valid problem rejected", spec.to_json());
        return;
    };
    let (Some(r), Some(j)) = (prob.residuals(), prob.jacobian()) else {
        out.inconcl("no residuals/jacobian");
        return;
    };
    // the decomposition must be accurate at alpha and at every stencil point, otherwise r(alpha) is not smooth
    let mut stencil: Vec<Vec<f64>> = vec![alpha.clone()];
    let np = alpha.len();
    let hs: Vec<f64> = alpha.iter().map(|a| 1e-4 * a.abs().max(1.0)).collect();
    for k in 0..np {
        for f in [-1.0, -0.5, 0.5, 1.0] {
            let mut a = alpha.clone();
            a[k] += f * hs[k];
            stencil.push(a);
        }
    }
    for a in &stencil {
        match dependency_svd_error_at::<f64>(&spec, a) {
            Some(e) if e <= KF1_MIN_E * f64::EPSILON => {}
            _ => {
                out.inconcl("dependency SVD inaccurate at a stencil point (KF-1): finite differences not meaningful");
                return;
            }
        }
    }
    let r: Vec<f64> = r.iter().cloned().collect();
    let ywn = widen(&prob.weighted_data()).fro();
    if la::norm2(&r) <= 1e-4 * ywn {
        out.inconcl("residual is (numerically) zero: the gradient carries no information");
        return;
    }
    let jm = widen(&j);
    let grad: Vec<f64> = (0..np).map(|k| 2.0 * la::dot(jm.col(k), &r)).collect();
    let f0 = la::dot(&r, &r);
    let mut worst: f64 = 0.0;
    let mut fd_all = Vec::new();
    for k in 0..np {
        let f = |d: f64| -> Option<f64> {
            let mut a = alpha.clone();
            a[k] += d;
            objective_at::<f64>(&spec, &a)
        };
        let h = hs[k];
        let (Some(fp), Some(fm), Some(fp2), Some(fm2)) = (f(h), f(-h), f(h / 2.0), f(-h / 2.0)) else {
            out.inconcl("objective not available at a stencil point");
            return;
        };
        let d1 = (fp - fm) / (2.0 * h);
        let d2 = (fp2 - fm2) / h;
        let fd = (4.0 * d2 - d1) / 3.0;
        fd_all.push(fd);
        // scale: the gradient is compared relative to the size of its terms
        let scale = 2.0 * la::norm2(jm.col(k)) * la::norm2(&r);
        let err = (fd - grad[k]).abs();
        let tol = 1e-5 * scale + 1e-9 * f0 / h + 64.0 * f64::EPSILON * ywn * ywn / h;
        worst = worst.max(err / tol.max(f64::MIN_POSITIVE));
    }
    out.evals += 1;
    if la::norm2(&r) > 1e-3 * widen(&prob.weighted_data()).fro() {
        out.nontrivial.push(spec.hash());
    }
    if worst <= 1.0 {
        out.ratio("gradient_vs_finite_differences", worst);
    } else {
        violation(out, stream, case, format!("2·J^T·r is not the gradient of |r(alpha)|^2: error/tolerance {worst:.3e}"),
            json!({"problem": spec.to_json(), "alpha": alpha, "analytic": grad, "finite_difference": fd_all}));
    }
}

fn fit_case<T: Sc>(rng: &mut Rng, case: u64, out: &mut CaseOut) {
    let stream = "fit-exchanges";
    let g = gen_problem(rng, &GenOpts { nmax: 40, smax: 4, ..Default::default() });
    let mut spec = g.spec;
    spec.alpha0 = perturb_alpha(rng, &g.alpha_true, 0.3);
    let Ok(prob) = build_problem_auto::<T>(&spec) else {
        violation(out, stream, case, "valid problem rejected", spec.to_json());
        return;
    };
    let cfg = LmCfg::random(rng);
    let (_prob, _rep, steps) = minimize_spied(&cfg.make::<T>(), prob);
    for (i, st) in steps.iter().enumerate() {
        let alpha: Vec<f64> = st.params_after.iter().map(|v| v.w()).collect();
        for j in &st.jac {
            if let (Some(j), Some(c)) = (j, &st.coeff) {
                out.count("jacobians_handed_to_optimizer");
                if !check_jacobian::<T>(out, stream, case, &spec, &alpha, &widen(c), &widen(j), &format!("optimizer step {i}")) {
                    return;
                }
            }
        }
    }
    if case < 1 {
        out.sample(json!({"stream": stream, "problem": spec.to_json(), "optimizer": cfg.to_json()}));
    }
}

pub fn run(ctx: &Ctx) {
    ctx.rule("[nearly-dependent-derivatives: three close decays (ratios 1.5, 2.2) + offset + linear term on [0, 3 tau_1]: the projected derivative columns are 1e-3..1e-5 of the unprojected ones] [coded-builder-models: builder-made models over position-coded closures of arity 1..8 on arbitrary ordered subsets of the model parameters (the C16 family) inside problems of all four flavours, 3 states each, same reference] states: zoo problems (Z2/Z3 share parameters between functions and have two parameters per function) with 1..7 columns, six weight classes, f32/f64, four flavours, alpha 0.4x..2.5x around the generating values; every Jacobian column block is compared with -(I-QQ^T)·W·D_k·c_s (Q from the oracle's Householder QR) and must be orthogonal to range(W·Phi); each derivative call in turn is made to fail and must yield no Jacobian. gradient: 2J^Tr against Richardson central differences of |r|^2 (f64, kappa<=1e4). fit-exchanges: every Jacobian handed to the optimizer. Only states with numerically full column rank (kappa <= 1e8 / 1e3 for f32) are in the property's domain. non-trivial = non-zero Jacobian and (S>1 or non-constant weights)");
    ctx.assume("reference mismatches explained by the measured reconstruction error of the dependency's SVD are attributed to KF-1");
    let t = ctx.tier;
    let b = t.pick(30.0, 900.0);
    ctx.run_cases("states", t.pick(10000, 400000), b, |r, c, o| if c % 3 == 0 { states_case::<f32>(r, c, o) } else { states_case::<f64>(r, c, o) });
    ctx.run_cases("gradient", t.pick(2000, 80000), b, gradient_case);
    ctx.run_cases("fit-exchanges", t.pick(1500, 64000), b, |r, c, o| if c % 4 == 0 { fit_case::<f32>(r, c, o) } else { fit_case::<f64>(r, c, o) });
    ctx.run_cases("nearly-dependent-derivatives", t.pick(3000, 90000), b, |r, c, o| if c % 5 == 0 { near_dependent_case::<f32>(r, c, o) } else { near_dependent_case::<f64>(r, c, o) });
    ctx.run_cases("coded-builder-models", t.pick(4000, 120000), b, |r, c, o| if c % 3 == 0 { coded_case::<f32>(r, c, o) } else { coded_case::<f64>(r, c, o) });
}
