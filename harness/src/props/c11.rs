//! C11 — parallel problems compute exactly what sequential problems compute

use crate::gen::*;
use crate::la::{self, Mat};
use crate::oracle::View;
use crate::problem::*;
use crate::rng::Rng;
use crate::run::*;
use crate::sc::{widen, Sc};
use crate::spy::{Call, Event, SpyCtl};
use crate::twin::*;
use crate::zoo::*;
use nalgebra::DVector;
use serde_json::json;
use std::sync::atomic::Ordering::SeqCst;

/// models with many parameters so that rayon has something to split
fn gen_par_spec(rng: &mut Rng, pmax: usize) -> (ProblemSpec, Vec<Vec<f64>>) {
    let s = *rng.pick(&[1usize, 1, 2, 3]);
    if rng.chance(0.5) {
        // hand-written multi-exponential with P decays
        let p = rng.int(2, pmax.min(12));
        let n = rng.int(p + 2, (p + 2).max(28));
        let x = grid(rng, n, 0.0, 10.0, false);
        let mspec = z1(x, p, rng.chance(0.5));
        let mut taus = Vec::new();
        let mut t = 0.3;
        for _ in 0..p {
            taus.push(t);
            t *= rng.range(1.3, 1.8);
        }
        let mut g = gen_problem_for(rng, &GenOpts { force_s: Some(s), ..Default::default() }, mspec, taus.clone());
        g.spec.par = true;
        g.spec.mrhs = s > 1 || rng.chance(0.3);
        if rng.chance(0.5) {
            if let ModelKind::Built(m) = g.spec.model.clone() {
                g.spec.model = ModelKind::Hand(m);
            }
        }
        let hist = (0..3).map(|_| taus.iter().map(|t| t * rng.range(0.8, 1.25)).collect()).collect();
        (g.spec, hist)
    } else {
        let p = rng.int(2, pmax);
        let m = rng.int(1, 5);
        let n = rng.int(m + 1, 24);
        let base = Mat::from_fn(n, m, |_, _| rng.normal());
        let slope: Vec<Mat> = (0..p).map(|_| Mat::from_fn(n, m, |_, _| rng.normal() * 0.3)).collect();
        let y = Mat::from_fn(n, s, |_, _| rng.normal() * 3.0);
        let w = if rng.chance(0.5) { Some((0..n).map(|_| rng.range(0.3, 2.0) * rng.sign()).collect()) } else { None };
        let alpha0: Vec<f64> = (0..p).map(|_| rng.normal()).collect();
        let hist = (0..3).map(|_| (0..p).map(|_| rng.normal() * 1.5).collect()).collect();
        (ProblemSpec { model: ModelKind::Table { n, m, p, base, slope }, alpha0, y, w, eps: None, mrhs: s > 1 || rng.chance(0.3), par: true }, hist)
    }
}

/// schedule signature of the Jacobian calls in a log: per call, the (column, worker) pairs in completion order
fn signatures(log: &[Event], np: usize) -> (Vec<u64>, u64) {
    let rets: Vec<&Event> = log.iter().filter(|e| matches!(e.call, Call::Deriv(_)) && e.ret).collect();
    let mut sigs = Vec::new();
    let mut multi = 0;
    for chunk in rets.chunks(np) {
        if chunk.len() < np {
            break;
        }
        let sig = crate::rng::hash_u64s(chunk.iter().flat_map(|e| {
            let k = if let Call::Deriv(k) = e.call { k as u64 } else { 0 };
            [k, e.thread as u64]
        }));
        let mut th: Vec<u32> = chunk.iter().map(|e| e.thread).collect();
        th.sort();
        th.dedup();
        if th.len() >= 2 {
            multi += 1;
        }
        sigs.push(sig);
    }
    (sigs, multi)
}

fn run_history<T: Sc>(spec: &ProblemSpec, hist: &[Vec<f64>], pool: Option<&rayon::ThreadPool>, delay: u64, fault_k: Option<usize>) -> Option<(Vec<Snap>, Vec<Event>, AnyProblem<T>)> {
    let ctl = SpyCtl::logging();
    if delay != 0 {
        ctl.delay_seed.store(delay, SeqCst);
        ctl.delay_max.store(40, SeqCst);
    }
    let body = || {
        let mut prob = build_problem::<T>(spec, &ctl).ok()?;
        let mut snaps = vec![snap(&prob, true)];
        for a in hist {
            prob.set_params(&DVector::from_iterator(a.len(), a.iter().map(|v| T::of(*v))));
            snaps.push(snap(&prob, true));
        }
        let clean_log = ctl.log_len();
        if let Some(k) = fault_k {
            // the derivative for parameter k fails during one Jacobian query, then works again
            ctl.fail_deriv_k.store(k as i64, SeqCst);
            snaps.push(snap(&prob, true));
            ctl.fail_deriv_k.store(-1, SeqCst);
            snaps.push(snap(&prob, true));
        }
        Some((snaps, prob, clean_log))
    };
    let r = match pool {
        Some(p) => p.install(body),
        None => body(),
    };
    let (snaps, prob, clean_log) = r?;
    // schedule signatures are taken from the fault-free part of the log only
    let mut log = ctl.take_log();
    log.truncate(clean_log);
    Some((snaps, log, prob))
}

fn par_case<T: Sc>(rng: &mut Rng, case: u64, out: &mut CaseOut, pools: &[usize], delay_seeds: usize) {
    let stream = "pools-and-schedules";
    let (mut spec, mut hist) = gen_par_spec(rng, 16);
    let np = spec.model.np();
    // a NaN / infinite observation: both flavours must agree about what exists, and the other columns must agree in value
    let bad_col: Option<usize> = if rng.chance(0.15) {
        let (i, j) = (rng.below(spec.y.r), rng.below(spec.y.c));
        spec.y.set(i, j, *rng.pick(&[f64::NAN, f64::INFINITY, f64::NEG_INFINITY]));
        out.count("histories_with_a_non_finite_observation");
        Some(j)
    } else {
        None
    };
    if rng.chance(0.3) {
        // a step into a region where the basis matrix is not finite, followed by a benign one
        let mut bad = hist[0].clone();
        let k = rng.below(np);
        bad[k] = *rng.pick(&[f64::NAN, f64::INFINITY, -1e-3 * bad[k].abs().max(1e-3), 1e308]);
        let back = hist[hist.len() - 1].clone();
        let at = rng.int(1, hist.len());
        hist.insert(at, bad);
        hist.push(back);
        out.count("histories_with_non_finite_step");
    }
    let mut seq_spec = spec.clone();
    seq_spec.par = false;
    // in 40 % of the cases the history ends with a Jacobian query during which one derivative fails
    let fault_k = if rng.chance(0.4) { Some(rng.below(np)) } else { None };
    if fault_k.is_some() {
        out.count("histories_with_failing_derivative");
    }
    let Some((seq_snaps, _, _)) = run_history::<T>(&seq_spec, &hist, None, 0, fault_k) else {
        violation(out, stream, case, "valid sequential problem rejected", spec.to_json());
        return;
    };
    let mut reference: Option<Vec<Snap>> = None;
    for &t in pools {
        let pool = rayon::ThreadPoolBuilder::new().num_threads(t).build().unwrap();
        for d in 0..delay_seeds {
            let delay = if d == 0 { 0 } else { crate::rng::hash_u64s([case, t as u64, d as u64]) | 1 };
            let Some((snaps, log, prob)) = run_history::<T>(&spec, &hist, Some(&pool), delay, fault_k) else {
                violation(out, stream, case, "valid parallel problem rejected", spec.to_json());
                return;
            };
            let (sigs, multi) = signatures(&log, np);
            for s in &sigs {
                out.seen("schedule_signatures", format!("{s:016x}"));
            }
            out.add("parallel_jacobians", sigs.len() as u64);
            out.add("parallel_jacobians_on_two_or_more_workers", multi);
            out.seen("pool_sizes", format!("{t}"));
            // (a) parallel vs sequential
            for (i, (ps, ss)) in snaps.iter().zip(&seq_snaps).enumerate() {
                out.evals += 1;
                if ps.resid.is_some() != ss.resid.is_some() || ps.coeff.is_some() != ss.coeff.is_some() || ps.jac.is_some() != ss.jac.is_some() {
                    violation(out, stream, case, format!("parallel problem (pool of {t}) and sequential problem disagree about which quantities exist at step {i} (alpha {:?}): parallel residuals/coefficients/jacobian present = {}/{}/{}, sequential = {}/{}/{}", ps.params,
                        ps.resid.is_some(), ps.coeff.is_some(), ps.jac.is_some(), ss.resid.is_some(), ss.coeff.is_some(), ss.jac.is_some()), json!({"problem": spec.to_json(), "pool": t}));
                    return;
                }
                if bit_diff(ps, ss).is_none() {
                    out.count("steps_bitwise_equal_to_sequential");
                } else {
                    out.count("steps_differing_from_sequential_in_rounding");
                    let alpha = ps.params.clone();
                    let v = View::new::<T>(&spec, &alpha);
                    if !(v.finite() && v.kappa() * T::EPS <= 1e-3 && v.sigma_min() > 16.0 * T::EPS) {
                        out.inconcl("difference to sequential on an ill-conditioned state");
                        continue;
                    }
                    let yw = {
                        let w = spec.w64::<T>();
                        spec.y64::<T>().row_scale(&w)
                    };
                    let dn: Vec<f64> = (0..np).map(|k| spec.model.dphi64::<T>(&alpha, k).row_scale(&v.w).fro()).collect();
                    for s in 0..spec.s() {
                        if Some(s) == bad_col {
                            continue;
                        }
                        match close_ratio(&v, yw.col(s), ps, s, ss, s, &dn, T::EPS) {
                            Ok((rc, rr, rj)) if rc <= 1.0 && rr <= 1.0 && rj <= 1.0 => {}
                            other => {
                                violation(out, stream, case, format!("parallel problem (pool of {t}) disagrees with the sequential problem at step {i}: {other:?}"), json!({"problem": spec.to_json(), "alpha": alpha, "pool": t}));
                                return;
                            }
                        }
                    }
                }
            }
            // (b) the same parallel problem under another pool size / schedule: identical bits
            match &reference {
                None => reference = Some(snaps.clone()),
                Some(r) => {
                    for (i, (a, b)) in r.iter().zip(&snaps).enumerate() {
                        out.evals += 1;
                        if let Some(dd) = bit_diff(a, b) {
                            violation(out, stream, case, format!("parallel results depend on pool size/schedule (pool {t}, delay seed {d}, step {i}): {dd}"), json!({"problem": spec.to_json(), "pool": t, "delay": delay}));
                            return;
                        }
                    }
                }
            }
            // (c) into_sequential preserves the state
            let before = snap(&prob, false);
            let conv = prob.into_sequential();
            let after = snap(&conv, true);
            out.evals += 1;
            let mut a = before.clone();
            let mut b = after.clone();
            a.jac_bits = None;
            b.jac_bits = None;
            a.jac = None;
            b.jac = None;
            if let Some(dd) = bit_diff(&a, &b) {
                violation(out, stream, case, format!("into_sequential changed the reported state: {dd}"), json!({"problem": spec.to_json()}));
                return;
            }
            if after.jac.is_some() != seq_snaps.last().unwrap().jac.is_some() {
                violation(out, stream, case, format!("after into_sequential the problem reports a Jacobian: {}, the sequentially built problem at the same parameters: {}", after.jac.is_some(), seq_snaps.last().unwrap().jac.is_some()), json!({"problem": spec.to_json()}));
                return;
            }
            if after.jac_bits != seq_snaps.last().unwrap().jac_bits {
                out.count("converted_jacobian_differs_in_rounding_from_sequential");
            }
        }
    }
    out.nontrivial.push(spec.hash());
    if case < 2 {
        out.sample(json!({"stream": stream, "P": np, "N": spec.model.n(), "pools": pools, "delay_seeds": delay_seeds, "S": spec.s()}));
    }
}

fn fit_case<T: Sc>(rng: &mut Rng, case: u64, out: &mut CaseOut, pools: &[usize]) {
    let stream = "fits";
    // identifiable decay problems so that fits have something to converge to
    let k = rng.int(2, 3);
    let n = rng.int(20, 60);
    let x = grid(rng, n, 0.0, 12.0, false);
    let mspec = z1(x, k, true);
    let mut taus = vec![rng.range(0.6, 1.2)];
    for i in 1..k {
        taus.push(taus[i - 1] * rng.range(3.0, 5.0));
    }
    let s = *rng.pick(&[1usize, 1, 3]);
    let mut g = gen_problem_for(rng, &GenOpts { noise: 0.02, force_s: Some(s), ..Default::default() }, mspec, taus.clone());
    g.spec.mrhs = s > 1;
    g.spec.alpha0 = perturb_alpha(rng, &taus, 0.2);
    let cfg = LmCfg::random(rng);
    let lm = cfg.make::<T>();
    let mut seq_spec = g.spec.clone();
    seq_spec.par = false;
    let mut par_spec = g.spec.clone();
    par_spec.par = true;
    let Ok(ps) = build_problem::<T>(&seq_spec, &SpyCtl::new()) else { return };
    let fs = ps.fit(&lm);
    for &t in pools {
        let pool = rayon::ThreadPoolBuilder::new().num_threads(t).build().unwrap();
        let ctl = SpyCtl::new();
        ctl.delay_seed.store(crate::rng::hash_u64s([case, t as u64]) | 1, SeqCst);
        ctl.delay_max.store(20, SeqCst);
        let fp = pool.install(|| build_problem::<T>(&par_spec, &ctl).ok().map(|p| p.fit(&lm)));
        let Some(fp) = fp else { return };
        out.evals += 1;
        out.nontrivial.push(crate::rng::hash_u64s([g.spec.hash(), t as u64]));
        let same_bits = fp.problem_params().iter().map(|v| v.bits()).eq(fs.problem_params().iter().map(|v| v.bits()));
        if same_bits && fp.termination() == fs.termination() && fp.report().number_of_evaluations == fs.report().number_of_evaluations {
            out.count("fits_identical_to_sequential");
            continue;
        }
        out.count("fits_not_bit_identical_to_sequential");
        if fp.is_ok() != fs.is_ok() {
            violation(out, stream, case, format!("parallel fit (pool {t}) terminated with {} but the sequential fit with {}", fp.termination(), fs.termination()), json!({"problem": g.spec.to_json(), "optimizer": cfg.to_json()}));
            return;
        }
        if fp.is_ok() {
            let pa: Vec<f64> = fp.problem_params().iter().map(|v| v.w()).collect();
            let pb: Vec<f64> = fs.problem_params().iter().map(|v| v.w()).collect();
            let rel = pa.iter().zip(&pb).map(|(x, y)| (x - y).abs() / x.abs().max(1e-300)).fold(0.0, f64::max);
            let tol = if T::IS_F64 { 1e-6 } else { 2e-2 };
            if rel > tol {
                violation(out, stream, case, format!("parallel fit (pool {t}) converged to {pa:?}, sequential to {pb:?}"), json!({"problem": g.spec.to_json(), "optimizer": cfg.to_json()}));
                return;
            }
        }
    }
}

/// a hand-written model over a *complex* scalar type (damped oscillations in complex notation): a model
/// like any other that is Sync; fits need a real field, but residuals, coefficients and the Jacobian of
/// the parallel problem must agree with the sequential one for every pool size
mod complex_model {
    use nalgebra::{Complex, DMatrix, DVector, Dyn, OMatrix, OVector};
    use varpro::prelude::SeparableNonlinearModel;
    pub type C64 = Complex<f64>;
    #[derive(Debug)]
    pub struct Never;
    impl std::fmt::Display for Never {
        fn fmt(&self, f: &mut std::fmt::Formatter<'_>) -> std::fmt::Result {
            write!(f, "never fails")
        }
    }
    impl std::error::Error for Never {}
    /// columns: exp(i w_k x) for each complex frequency w_k, one shared-damping column exp(-x/tau), 1
    #[derive(Clone)]
    pub struct Oscillations {
        pub x: DVector<f64>,
        pub params: DVector<C64>,
    }
    impl Oscillations {
        fn nfreq(&self) -> usize {
            self.params.len() - 1
        }
    }
    impl SeparableNonlinearModel for Oscillations {
        type ScalarType = C64;
        type Error = Never;
        fn parameter_count(&self) -> usize {
            self.params.len()
        }
        fn base_function_count(&self) -> usize {
            self.nfreq() + 2
        }
        fn output_len(&self) -> usize {
            self.x.len()
        }
        fn set_params(&mut self, p: OVector<C64, Dyn>) -> Result<(), Never> {
            self.params = p;
            Ok(())
        }
        fn params(&self) -> OVector<C64, Dyn> {
            self.params.clone()
        }
        fn eval(&self) -> Result<OMatrix<C64, Dyn, Dyn>, Never> {
            let i = C64::new(0.0, 1.0);
            let k = self.nfreq();
            let tau = self.params[k];
            Ok(DMatrix::from_fn(self.x.len(), k + 2, |r, c| {
                let x = self.x[r];
                if c < k {
                    (i * self.params[c] * x).exp()
                } else if c == k {
                    (-C64::from(x) / tau).exp()
                } else {
                    C64::new(1.0, 0.0)
                }
            }))
        }
        fn eval_partial_deriv(&self, d: usize) -> Result<OMatrix<C64, Dyn, Dyn>, Never> {
            let i = C64::new(0.0, 1.0);
            let k = self.nfreq();
            let tau = self.params[k];
            Ok(DMatrix::from_fn(self.x.len(), k + 2, |r, c| {
                let x = self.x[r];
                if c == d && d < k {
                    i * x * (i * self.params[c] * x).exp()
                } else if c == d && d == k {
                    C64::from(x) / (tau * tau) * (-C64::from(x) / tau).exp()
                } else {
                    C64::new(0.0, 0.0)
                }
            }))
        }
    }
}

fn complex_case(rng: &mut Rng, case: u64, out: &mut CaseOut, pools: &[usize]) {
    use complex_model::{Oscillations, C64};
    use levenberg_marquardt::LeastSquaresProblem;
    use nalgebra::DMatrix;
    use varpro::solvers::levmar::LevMarProblemBuilder;
    let stream = "complex-scalar";
    let k = rng.int(1, 3);
    let n = k + 2 + rng.int(2, 30);
    let x = DVector::from_fn(n, |j, _| 0.25 * j as f64 + rng.range(0.0, 0.05));
    let params = DVector::from_fn(k + 1, |j, _| if j < k { C64::new(0.6 + 0.7 * j as f64 + rng.range(0.0, 0.3), rng.range(0.0, 0.1)) } else { C64::new(rng.range(1.5, 4.0), rng.range(-0.3, 0.3)) });
    let model = Oscillations { x, params: params.clone() };
    let s = *rng.pick(&[1usize, 2, 3]);
    let y = DMatrix::from_fn(n, s, |_, _| C64::new(rng.normal(), rng.normal()));
    let w: Option<DVector<C64>> = if rng.chance(0.6) { Some(DVector::from_fn(n, |_, _| C64::new(rng.range(0.3, 2.0), 0.0))) } else { None };
    let other = DVector::from_fn(k + 1, |j, _| params[j] * C64::new(rng.range(0.8, 1.2), rng.range(-0.05, 0.05)));
    // (residuals, coefficients, jacobian) at the initial parameters and after one update, flattened
    type State = Vec<Option<Vec<C64>>>;
    macro_rules! states {
        ($ctor:ident, $obs:expr) => {{
            let mut b = LevMarProblemBuilder::$ctor(model.clone()).observations($obs);
            if let Some(w) = &w {
                b = b.weights(w.clone());
            }
            match b.build() {
                Ok(mut p) => {
                    let mut v: State = Vec::new();
                    for step in 0..2 {
                        v.push(p.residuals().map(|r| r.iter().cloned().collect()));
                        v.push(p.linear_coefficients().map(|c| c.iter().cloned().collect()));
                        v.push(p.jacobian().map(|j| j.iter().cloned().collect()));
                        if step == 0 {
                            p.set_params(&other);
                        }
                    }
                    Some(v)
                }
                Err(_) => None,
            }
        }};
    }
    let seq: Option<State> = if s == 1 { states!(new, y.column(0).into_owned()) } else { states!(mrhs, y.clone()) };
    let Some(seq) = seq else {
        violation(out, stream, case, "valid complex problem rejected by the builder", json!({"N": n, "S": s}));
        return;
    };
    for &t in pools {
        let pool = rayon::ThreadPoolBuilder::new().num_threads(t).build().unwrap();
        let par: Option<State> = pool.install(|| if s == 1 { states!(new_parallel, y.column(0).into_owned()) } else { states!(mrhs_parallel, y.clone()) });
        out.evals += 1;
        let Some(par) = par else {
            violation(out, stream, case, "valid complex parallel problem rejected by the builder", json!({"N": n, "S": s}));
            return;
        };
        let names = ["residuals", "coefficients", "jacobian"];
        for (idx, (a, b)) in seq.iter().zip(&par).enumerate() {
            let what = names[idx % 3];
            match (a, b) {
                (Some(a), Some(b)) if a.len() == b.len() => {
                    let scale = a.iter().map(|z| z.norm()).fold(0.0, f64::max).max(1e-300);
                    let diff = a.iter().zip(b).map(|(p, q)| (p - q).norm()).fold(0.0, f64::max);
                    if !(diff <= 1e-9 * scale) {
                        violation(out, stream, case, format!("complex scalar type: {what} of the parallel problem (pool of {t}) differ from the sequential problem by {diff:e} (scale {scale:e}) at state {}", idx / 3), json!({"N": n, "S": s, "frequencies": k, "weighted": w.is_some()}));
                        return;
                    }
                }
                (None, None) => {}
                _ => {
                    violation(out, stream, case, format!("complex scalar type: parallel (pool of {t}) and sequential problem disagree about the presence or size of the {what}"), json!({"N": n, "S": s}));
                    return;
                }
            }
        }
    }
    out.nontrivial.push(crate::rng::hash_u64s([case, n as u64, s as u64, k as u64]));
}

/// workload for TSan / Miri: parallel Jacobians in explicit pools, every element used
pub fn sanitizer_workload(seed: u64, cases: u64, nmax: usize, len: usize) -> (u64, u64) {
    let mut obs = 0;
    let mut sum = 0u64;
    for c in 0..cases {
        let mut rng = Rng::keyed(seed, "C11/sanitizer", c);
        let (mut spec, hist) = gen_par_spec(&mut rng, len.max(2));
        // keep shapes small for the interpreter
        if spec.model.n() > nmax {
            if let ModelKind::Table { n, m, p, base, slope } = &spec.model {
                let n2 = nmax.max(*m + 1).min(*n);
                let cut = |a: &Mat| Mat::from_fn(n2, a.c, |i, j| a.at(i, j));
                spec = ProblemSpec { model: ModelKind::Table { n: n2, m: *m, p: *p, base: cut(base), slope: slope.iter().map(cut).collect() }, y: cut(&spec.y), w: spec.w.as_ref().map(|w| w[..n2].to_vec()), ..spec.clone() };
            } else if let Some(ms) = spec.model.spec() {
                let keep = nmax.max(ms.m() + 1).min(ms.n());
                let mut m2 = ms.clone();
                m2.x.truncate(keep);
                let cut = |a: &Mat| Mat::from_fn(keep, a.c, |i, j| a.at(i, j));
                spec = ProblemSpec { model: ModelKind::Hand(m2), y: cut(&spec.y), w: spec.w.as_ref().map(|w| w[..keep].to_vec()), ..spec.clone() };
            }
        }
        for t in [2usize, 4] {
            let pool = rayon::ThreadPoolBuilder::new().num_threads(t).build().unwrap();
            let r = if c % 3 == 0 { run_history::<f32>(&spec, &hist[..1], Some(&pool), 0, None).map(|(s, _, _)| s) } else { run_history::<f64>(&spec, &hist[..1], Some(&pool), 0, None).map(|(s, _, _)| s) };
            if let Some(snaps) = r {
                for s in snaps {
                    obs += 1;
                    for b in s.jac_bits.iter().flatten().chain(s.resid_bits.iter().flatten()) {
                        if *b & 1 == 1 {
                            sum = sum.wrapping_add(*b);
                        } else {
                            sum ^= *b;
                        }
                    }
                }
            }
        }
    }
    (obs, sum)
}

pub fn run(ctx: &Ctx) {
    ctx.rule("[15 % of the problems carry one NaN/infinite observation: presence of residuals/coefficients/Jacobian must agree between the flavours; 40 % of the histories end with a Jacobian query during which the derivative of one parameter fails (both flavours must report no Jacobian and keep residuals), followed by a successful one] [complex-scalar: a hand-written model over Complex<f64> (1..3 complex frequencies, a damping, an offset; 1..3 right-hand sides; real weights): residuals, coefficients and Jacobian of the parallel problem vs the sequential one at two parameter vectors, for each pool size] pools-and-schedules: problems with P = 2..16 nonlinear parameters (hand-written/builder-made multi-exponentials, table models; 1..3 right-hand sides; weights) built through the parallel constructors and run inside explicit rayon pools (quick {1,2,4,16}; thorough 1..16) with seeded spin/yield delays inside eval_partial_deriv; each run is compared with the sequential problem (tolerance; bitwise agreement recorded), with the first parallel run (bitwise: independence of pool size and schedule) and before/after into_sequential (bitwise). Schedule signature of a Jacobian = (column, worker) pairs in completion order from the ModelSpy log. fits: parallel vs sequential fit under random optimizer settings. thorough adds ThreadSanitizer and Miri (many seeds) over the parallel Jacobian workload. distinct = problem hash; all cases non-trivial (P>=2)");
    ctx.assume("rayon's scheduler is not controlled: schedule coverage is whatever pool sizes and delay injection produce; the evidence reports the distinct signatures observed");
    let t = ctx.tier;
    let pools_q: Vec<usize> = vec![1, 2, 4, 16];
    let pools_t: Vec<usize> = (1..=16).collect();
    let pools = if t == Tier::Quick { pools_q } else { pools_t };
    let ds = t.pick(2, 8);
    // each case builds its own pools: limit harness-level threads so that 16-thread pools are not starved
    ctx.run_cases("pools-and-schedules", t.pick(500, 2500), t.pick(20.0, 400.0), |r, c, o| if c % 3 == 0 { par_case::<f32>(r, c, o, &pools, ds) } else { par_case::<f64>(r, c, o, &pools, ds) });
    let fit_pools = vec![1usize, 3, 8];
    ctx.run_cases("complex-scalar", t.pick(300, 6000), t.pick(20.0, 300.0), |r, c, o| complex_case(r, c, o, &fit_pools));
    ctx.run_cases("fits", t.pick(400, 3000), t.pick(15.0, 900.0), |r, c, o| if c % 4 == 0 { fit_case::<f32>(r, c, o, &fit_pools) } else { fit_case::<f64>(r, c, o, &fit_pools) });
    {
        let tot = ctx.total.lock().unwrap();
        let multi = tot.counters.get("parallel_jacobians_on_two_or_more_workers").cloned().unwrap_or(0);
        drop(tot);
        if multi == 0 && ctx.replay.is_none() {
            let mut o = CaseOut::default();
            o.inconcl("no Jacobian was ever computed by more than one worker thread");
            ctx.merge_public(o);
            ctx.harness_error("no Jacobian was computed on two or more worker threads: the run cannot speak about scheduling".into());
        }
    }
    if t == Tier::Thorough && ctx.replay.is_none() {
        sanitizers(ctx);
    } else {
        ctx.extra("sanitizer_engines", json!("ThreadSanitizer and Miri run in the thorough tier only"));
    }
    let _ = (la::norm2(&[0.0]), widen::<f64, nalgebra::Dyn, nalgebra::Dyn, _>(&nalgebra::DMatrix::<f64>::zeros(0, 0)));
}

fn sanitizers(ctx: &Ctx) {
    use std::process::{Command, Stdio};
    let mut engines = serde_json::Map::new();
    let dir = format!("{VERIF_DIR}/harness");
    // ThreadSanitizer build (offline, build-std)
    let build = Command::new("cargo")
        .current_dir(&dir)
        .env("RUSTFLAGS", "-Zsanitizer=thread")
        .env("CARGO_NET_OFFLINE", "true")
        .env("CARGO_TARGET_DIR", format!("{dir}/target-tsan"))
        .args(["+nightly", "build", "--offline", "-Zbuild-std", "--target", "x86_64-unknown-linux-gnu", "--release", "--bin", "vpmini"])
        .stdout(Stdio::null())
        .stderr(Stdio::piped())
        .output();
    match build {
        Ok(o) if o.status.success() => {
            let exe = format!("{dir}/target-tsan/x86_64-unknown-linux-gnu/release/vpmini");
            let run = Command::new(&exe)
                .env("TSAN_OPTIONS", "halt_on_error=0 exitcode=66 report_signal_unsafe=0")
                .args(["C11", &ctx.seed.to_string(), "1500", "16", "12"])
                .output();
            match run {
                Ok(o) => {
                    let text = format!("{}{}", String::from_utf8_lossy(&o.stdout), String::from_utf8_lossy(&o.stderr));
                    let reports = text.matches("WARNING: ThreadSanitizer").count();
                    engines.insert("tsan".into(), json!({"ran": true, "reports": reports, "exit": o.status.code(), "workload": text.lines().find(|l| l.starts_with("sanitizer-workload")).unwrap_or("")}));
                    if reports > 0 {
                        let mut oo = CaseOut::default();
                        oo.evals += 1;
                        violation(&mut oo, "tsan", 0, format!("ThreadSanitizer reported {reports} data race(s) in the parallel Jacobian path"), json!({"output": text.chars().take(6000).collect::<String>()}));
                        ctx.merge_public(oo);
                    } else if !o.status.success() {
                        ctx.harness_error(format!("TSan workload exited with {:?} without a report: {}", o.status.code(), text.chars().take(400).collect::<String>()));
                    }
                }
                Err(e) => ctx.harness_error(format!("cannot run TSan binary: {e}")),
            }
        }
        Ok(o) => {
            let mut oo = CaseOut::default();
            oo.inconcl("ThreadSanitizer build failed (engine unavailable)");
            ctx.merge_public(oo);
            engines.insert("tsan".into(), json!({"ran": false, "build_error": String::from_utf8_lossy(&o.stderr).chars().rev().take(500).collect::<String>().chars().rev().collect::<String>()}));
        }
        Err(e) => {
            engines.insert("tsan".into(), json!({"ran": false, "error": e.to_string()}));
        }
    }
    // Miri with many seeds (its own preemption supplies the interleavings)
    let run = Command::new("cargo")
        .current_dir(&dir)
        .env("MIRIFLAGS", "-Zmiri-tree-borrows -Zmiri-permissive-provenance -Zmiri-deterministic-floats -Zmiri-ignore-leaks -Zmiri-disable-isolation -Zmiri-many-seeds=0..16")
        .env("CARGO_NET_OFFLINE", "true")
        .env("CARGO_TARGET_DIR", format!("{dir}/target-miri"))
        .args(["+nightly", "miri", "run", "--offline", "--quiet", "--bin", "vpmini", "--", "C11", &ctx.seed.to_string(), "1", "6", "4"])
        .output();
    match run {
        Ok(o) => {
            let text = format!("{}{}", String::from_utf8_lossy(&o.stdout), String::from_utf8_lossy(&o.stderr));
            let ub = text.contains("Undefined Behavior") || text.contains("Data race");
            engines.insert("miri".into(), json!({"ran": true, "seeds": 16, "clean": o.status.success(), "runs_completed": text.matches("sanitizer-workload").count()}));
            if ub {
                let mut oo = CaseOut::default();
                oo.evals += 1;
                violation(&mut oo, "miri", 0, "Miri reported undefined behaviour / a data race in the parallel Jacobian path", json!({"output": text.chars().take(6000).collect::<String>()}));
                ctx.merge_public(oo);
            } else if !o.status.success() {
                ctx.harness_error(format!("Miri run failed without a UB report: {}", text.chars().take(600).collect::<String>()));
            }
        }
        Err(e) => {
            engines.insert("miri".into(), json!({"ran": false, "error": e.to_string()}));
        }
    }
    ctx.extra("sanitizer_engines", serde_json::Value::Object(engines));
}
