//! C18 — problem builder accepts exactly consistent inputs and starts at the model's α

use crate::la::Mat;
use crate::problem::*;
use crate::rng::Rng;
use crate::run::*;
use crate::sc::{bits_of, dmat, dvec, Sc};
use crate::spy::{Spy, SpyCtl};
use crate::twin::*;
use nalgebra::DVector;
use serde_json::json;
use std::collections::BTreeSet;
use varpro::solvers::levmar::LevMarProblemBuilder;

#[derive(Clone, Debug)]
pub enum Op {
    /// observations: rows × cols (single-rhs constructors take a vector: cols is 1)
    Obs(Mat),
    W(Vec<f64>),
    E(f64),
}

#[derive(Clone, Debug)]
pub struct Plan {
    pub model: ModelKind,
    pub alpha0: Vec<f64>,
    pub mrhs: bool,
    pub par: bool,
    pub ops: Vec<Op>,
}

pub fn build_plan<T: Sc>(p: &Plan) -> Result<AnyProblem<T>, String> {
    let model = Spy::new(p.model.instantiate::<T>(&p.alpha0), SpyCtl::new());
    macro_rules! go {
        ($b:expr, $variant:ident, $mr:expr) => {{
            let mut b = $b;
            for op in &p.ops {
                b = match op {
                    Op::Obs(y) => {
                        if $mr {
                            apply_obs_m(b, y)
                        } else {
                            apply_obs_s(b, y)
                        }
                    }
                    Op::W(w) => b.weights(dvec::<T>(w)),
                    Op::E(e) => b.epsilon(T::of(*e)),
                };
            }
            b.build().map(AnyProblem::$variant).map_err(|e| format!("{e:?}"))
        }};
    }
    // helper closures cannot be generic over the builder type: use small traits instead
    trait ObsS<T: Sc> {
        fn obs_s(self, y: &Mat) -> Self;
    }
    trait ObsM<T: Sc> {
        fn obs_m(self, y: &Mat) -> Self;
    }
    impl<T: Sc, const PAR: bool> ObsS<T> for LevMarProblemBuilder<Spy<T>, false, PAR> {
        fn obs_s(self, y: &Mat) -> Self {
            self.observations(dvec::<T>(&y.d))
        }
    }
    impl<T: Sc, const PAR: bool> ObsM<T> for LevMarProblemBuilder<Spy<T>, true, PAR> {
        fn obs_m(self, y: &Mat) -> Self {
            self.observations(dmat::<T>(y))
        }
    }
    impl<T: Sc, const PAR: bool> ObsM<T> for LevMarProblemBuilder<Spy<T>, false, PAR> {
        fn obs_m(self, _y: &Mat) -> Self {
            unreachable!()
        }
    }
    impl<T: Sc, const PAR: bool> ObsS<T> for LevMarProblemBuilder<Spy<T>, true, PAR> {
        fn obs_s(self, _y: &Mat) -> Self {
            unreachable!()
        }
    }
    fn apply_obs_s<T: Sc, B: ObsS<T>>(b: B, y: &Mat) -> B {
        b.obs_s(y)
    }
    fn apply_obs_m<T: Sc, B: ObsM<T>>(b: B, y: &Mat) -> B {
        b.obs_m(y)
    }
    match (p.mrhs, p.par) {
        (false, false) => go!(LevMarProblemBuilder::new(model), SS, false),
        (false, true) => go!(LevMarProblemBuilder::new_parallel(model), SP, false),
        (true, false) => go!(LevMarProblemBuilder::mrhs(model), MS, true),
        (true, true) => go!(LevMarProblemBuilder::mrhs_parallel(model), MP, true),
    }
}

/// specification: the set of violated requirements (last call of each kind wins)
pub fn spec_defects(p: &Plan) -> BTreeSet<&'static str> {
    let mut d = BTreeSet::new();
    let y = p.ops.iter().rev().find_map(|o| if let Op::Obs(y) = o { Some(y) } else { None });
    let w = p.ops.iter().rev().find_map(|o| if let Op::W(w) = o { Some(w) } else { None });
    let Some(y) = y else {
        d.insert("YDataMissing");
        return d;
    };
    let n = p.model.n();
    if n == 0 || y.r == 0 || y.c == 0 {
        d.insert("ZeroLengthVector");
    }
    if y.r != n {
        d.insert("InvalidLengthOfData");
    }
    if let Some(w) = w {
        if w.len() != y.r {
            d.insert("InvalidLengthOfWeights");
        }
    }
    d
}

fn table(rng: &mut Rng, n: usize, m: usize, p: usize) -> ModelKind {
    ModelKind::Table {
        n,
        m,
        p,
        base: Mat::from_fn(n, m, |_, _| rng.normal()),
        slope: (0..p).map(|_| Mat::from_fn(n, m, |_, _| rng.normal() * 0.3)).collect(),
    }
}

fn shapes_case<T: Sc>(rng: &mut Rng, case: u64, out: &mut CaseOut, orders: usize) {
    let stream = "shapes-and-orders";
    // exhaustive shape grid from the case index: model length 0..12, Y rows 0..12, cols 0..4 (single: 1), weights absent / 0..13
    let n = (case % 13) as usize;
    let rows = ((case / 13) % 13) as usize;
    let cols = ((case / 169) % 5) as usize;
    let wsel = ((case / 845) % 4) as usize; // 0 absent, 1 = rows, 2 = model length, 3 = other
    let ctor = ((case / 3380) % 4) as usize;
    let (mrhs, par) = (ctor & 1 == 1, ctor & 2 == 2);
    let cols = if mrhs { cols } else { 1 };
    let m = rng.int(1, 3);
    let p = rng.int(1, 3);
    let mut model = table(rng, n, m, p);
    if rng.chance(0.25) {
        // a model that evaluates only once its parameters have been applied through set_params
        model = ModelKind::Lazy(Box::new(model));
        out.count("lazily_primed_models");
    }
    let alpha0: Vec<f64> = (0..p).map(|_| rng.normal()).collect();
    let y = Mat::from_fn(rows, cols, |_, _| rng.normal() * 2.0);
    let wlen = match wsel {
        0 => None,
        1 => Some(rows),
        2 => Some(n),
        _ => Some(rng.int(0, 13)),
    };
    // weight values: random, or all exactly 1, or one constant (a vector of ones is still a vector with a length)
    let wvals = rng.below(4);
    let wconst = rng.range(0.2, 2.0) * rng.sign();
    let w: Option<Vec<f64>> = wlen.map(|l| (0..l).map(|_| match wvals { 0 => 1.0, 1 => wconst, _ => rng.range(0.2, 2.0) * rng.sign() }).collect());
    if wlen.is_some() {
        out.seen("weight_values", ["all ones", "constant", "random", "random"][wvals]);
    }
    let eps = match rng.below(4) {
        0 => None,
        1 => Some(rng.logrange(1e-12, 1e-2)),
        2 => Some(-rng.logrange(1e-12, 1e-2)),
        _ => Some(0.0),
    };
    let mut base_ops: Vec<Op> = Vec::new();
    let with_obs = rng.chance(0.93);
    if with_obs {
        base_ops.push(Op::Obs(y.clone()));
    }
    if let Some(w) = &w {
        base_ops.push(Op::W(w.clone()));
    }
    if let Some(e) = eps {
        base_ops.push(Op::E(e));
    }
    let mut reference: Option<Snap> = None;
    let mut reference_wd: Option<Vec<u64>> = None;
    for ord in 0..orders {
        // permutation, plus repetition with overwritten earlier values (last one wins)
        let mut ops = base_ops.clone();
        if ord > 0 {
            rng.shuffle(&mut ops);
            if rng.chance(0.5) {
                // earlier calls with other values, to be overwritten
                let mut pre: Vec<Op> = Vec::new();
                if with_obs && rng.chance(0.6) {
                    pre.push(Op::Obs(Mat::from_fn(rng.int(0, 12), if mrhs { rng.int(0, 4) } else { 1 }, |_, _| rng.normal())));
                }
                if w.is_some() && rng.chance(0.6) {
                    pre.push(Op::W((0..rng.int(0, 13)).map(|_| rng.normal()).collect()));
                }
                if eps.is_some() && rng.chance(0.6) {
                    pre.push(Op::E(rng.normal()));
                }
                pre.extend(ops);
                ops = pre;
            }
        }
        let plan = Plan { model: model.clone(), alpha0: alpha0.clone(), mrhs, par, ops };
        let spec = spec_defects(&plan);
        let real = build_plan::<T>(&plan);
        out.evals += 1;
        let detail = || json!({"model_length": n, "Y": [rows, cols], "weights_length": wlen, "epsilon": eps, "constructor": if mrhs { if par { "mrhs_parallel" } else { "mrhs" } } else if par { "new_parallel" } else { "new" }, "calls": plan.ops.iter().map(|o| match o { Op::Obs(y) => format!("observations({}x{})", y.r, y.c), Op::W(w) => format!("weights(len {})", w.len()), Op::E(e) => format!("epsilon({e:e})") }).collect::<Vec<_>>()});
        match &real {
            Ok(prob) => {
                out.count("accepted");
                if !spec.is_empty() {
                    violation(out, stream, case, format!("build() returned Ok although the specification finds {spec:?}"), detail());
                    return;
                }
                out.nontrivial.push(crate::rng::hash_u64s([case, ord as u64]));
                // starts at the model's parameters, with the state for them already exposed
                let params = prob.params();
                if bits_of(&params) != bits_of(&dvec::<T>(&alpha0)) {
                    violation(out, stream, case, "a freshly built problem does not report the model's initial parameters", detail());
                    return;
                }
                let phi = model.phi64::<T>(&alpha0);
                let s0 = snap(prob, true);
                if phi.all_finite() && (s0.resid.is_none() || s0.coeff.is_none()) {
                    violation(out, stream, case, "the model evaluates at its initial parameters but the built problem exposes no residuals/coefficients", detail());
                    return;
                }
                // equal to an explicit set_params(initial)
                let mut again = build_plan::<T>(&plan).unwrap();
                again.set_params(&DVector::from_iterator(alpha0.len(), alpha0.iter().map(|v| T::of(*v))));
                if let Some(dd) = bit_diff(&s0, &snap(&again, true)) {
                    violation(out, stream, case, format!("state after build differs from the state after an explicit set_params(initial): {dd}"), detail());
                    return;
                }
                // order and repetition of the builder calls do not matter
                let wd = bits_of(&prob.weighted_data());
                match (&reference, &reference_wd) {
                    (Some(r), Some(rw)) => {
                        if let Some(dd) = bit_diff(r, &s0) {
                            violation(out, stream, case, format!("the order/repetition of builder calls changed the problem: {dd}"), detail());
                            return;
                        }
                        if *rw != wd {
                            violation(out, stream, case, "the order/repetition of builder calls changed the weighted data", detail());
                            return;
                        }
                    }
                    _ => {
                        reference = Some(s0);
                        reference_wd = Some(wd);
                    }
                }
            }
            Err(k) => {
                let kind = k.split([' ', '{', '(']).next().unwrap_or("").to_string();
                out.count(&format!("rejected_{kind}"));
                if spec.is_empty() {
                    violation(out, stream, case, format!("build() returned Err({kind}) although all requirements hold"), detail());
                    return;
                }
                if !spec.contains(kind.as_str()) {
                    violation(out, stream, case, format!("build() returned Err({kind}) but the violated requirements are {spec:?}"), detail());
                    return;
                }
                // the error that names the length requirement must name the lengths that were compared:
                // the model's output length and the number of rows of the observations in effect
                if kind == "InvalidLengthOfData" {
                    let field = |name: &str| -> Option<usize> {
                        let at = k.find(name)? + name.len();
                        k[at..].trim_start_matches([':', ' ']).split(|ch: char| !ch.is_ascii_digit()).next()?.parse().ok()
                    };
                    let y_eff = plan.ops.iter().rev().find_map(|o| if let Op::Obs(y) = o { Some(y.r) } else { None }).unwrap_or(0);
                    out.count("length_error_payloads_checked");
                    if field("x_length") != Some(n) || field("y_length") != Some(y_eff) {
                        violation(out, stream, case, format!("build() returned {k} but the model has output length {n} and the observations in effect have {y_eff} rows"), detail());
                        return;
                    }
                }
                if spec.len() == 1 {
                    out.nontrivial.push(crate::rng::hash_u64s([case, ord as u64, 1]));
                }
            }
        }
        if case % 997 == 0 && ord == 0 {
            out.sample(detail());
        }
    }
}

/// a valid problem over many basis functions (40..100) and a few hundred samples must come out of
/// build() with residuals and coefficients like any other
fn wide_case<T: Sc>(rng: &mut Rng, case: u64, out: &mut CaseOut) {
    let stream = "many-basis-functions";
    let m = rng.int(40, 100);
    let n = m + rng.int(20, 160);
    let p = rng.int(1, 2);
    let model = table(rng, n, m, p);
    let alpha0: Vec<f64> = (0..p).map(|_| rng.normal()).collect();
    let (mrhs, par) = (rng.chance(0.5), rng.chance(0.5));
    let cols = if mrhs { rng.int(1, 3) } else { 1 };
    let y = Mat::from_fn(n, cols, |_, _| rng.normal() * 2.0);
    let mut ops = vec![Op::Obs(y)];
    if rng.chance(0.5) {
        ops.push(Op::W((0..n).map(|_| rng.range(0.2, 2.0) * rng.sign()).collect()));
    }
    rng.shuffle(&mut ops);
    let plan = Plan { model: model.clone(), alpha0: alpha0.clone(), mrhs, par, ops };
    out.evals += 1;
    match build_plan::<T>(&plan) {
        Ok(prob) => {
            out.nontrivial.push(crate::rng::hash_u64s([case, m as u64, n as u64]));
            let s0 = snap(&prob, true);
            if model.phi64::<T>(&alpha0).all_finite() && (s0.resid.is_none() || s0.coeff.is_none()) {
                violation(out, stream, case, format!("the model evaluates at its initial parameters (N={n}, M={m}) but the built problem exposes no residuals/coefficients"), json!({"N": n, "M": m, "P": p}));
            }
        }
        Err(e) => violation(out, stream, case, format!("valid problem (N={n}, M={m}) rejected: {e}"), json!({"N": n, "M": m})),
    }
}

/// threshold semantics: |e| for a supplied epsilon, machine epsilon otherwise, last call wins
fn threshold_case<T: Sc>(rng: &mut Rng, case: u64, out: &mut CaseOut) {
    let stream = "threshold";
    let n = rng.int(2, 8);
    let row = rng.below(n);
    let y = Mat::from_fn(n, 1, |_, _| rng.range(0.5, 2.0) * rng.sign());
    let next_up = |v: f64| -> f64 { if T::IS_F64 { f64::from_bits(v.to_bits() + 1) } else { f32::from_bits((v as f32).to_bits() + 1) as f64 } };
    let mrhs = rng.chance(0.5);
    let par = rng.chance(0.5);
    let run_one = |sval: f64, ops: Vec<Op>, expect_zero: bool, what: &str, out: &mut CaseOut| -> bool {
        let mut all = vec![Op::Obs(y.clone())];
        all.extend(ops);
        let plan = Plan { model: ModelKind::OneCol { n, row }, alpha0: vec![sval], mrhs, par, ops: all };
        out.evals += 1;
        out.nontrivial.push(crate::rng::hash_u64s([case, sval.to_bits(), expect_zero as u64, crate::rng::fnv(what.as_bytes())]));
        match build_plan::<T>(&plan) {
            Ok(p) => {
                let c = p.coeffs().map(|c| c[(0, 0)].w());
                let zero = c == Some(0.0);
                if zero != expect_zero {
                    violation(out, stream, case, format!("{what}: singular value {sval:e}: coefficient {c:?}, expected {}", if expect_zero { "exactly 0 (at or below the threshold)" } else { "non-zero (above the threshold)" }),
                        json!({"singular_value": sval, "calls": format!("{:?}", plan.ops.iter().skip(1).collect::<Vec<_>>())}));
                    return false;
                }
                true
            }
            Err(e) => {
                violation(out, stream, case, format!("valid problem rejected: {e}"), json!({}));
                false
            }
        }
    };
    // supplied epsilon, either sign
    let s = crate::sc::rt::<T>(rng.logrange(1e-6, 1e2));
    for sign in [1.0, -1.0] {
        if !run_one(s, vec![Op::E(sign * s)], true, "epsilon(±s)", out) {
            return;
        }
        if !run_one(next_up(s), vec![Op::E(sign * s)], false, "epsilon(±s), singular value one ulp above", out) {
            return;
        }
    }
    // no call: machine epsilon
    let e = T::EPS;
    if !run_one(e, vec![], true, "no epsilon call (machine epsilon)", out) {
        return;
    }
    if !run_one(next_up(e), vec![], false, "no epsilon call, singular value one ulp above machine epsilon", out) {
        return;
    }
    // thresholds below machine epsilon are legal and must be used as given (|e|, also 0)
    let small = crate::sc::rt::<T>(if T::IS_F64 { rng.logrange(1e-40, 1e-18) } else { rng.logrange(1e-30, 1e-9) });
    for sign in [1.0, -1.0] {
        if !run_one(small, vec![Op::E(sign * small)], true, "epsilon(±s) with s below machine epsilon", out) {
            return;
        }
        if !run_one(next_up(small), vec![Op::E(sign * small)], false, "epsilon(±s) with s below machine epsilon, singular value one ulp above", out) {
            return;
        }
    }
    if !run_one(small, vec![Op::E(0.0)], false, "epsilon(0): only exactly zero singular values count as zero", out) {
        return;
    }
    if !run_one(small, vec![Op::E(-0.0)], false, "epsilon(-0)", out) {
        return;
    }
    // repetition: the last call wins
    if !run_one(s, vec![Op::E(s * 100.0), Op::E(-s)], true, "epsilon(100s) then epsilon(-s)", out) {
        return;
    }
    let _ = run_one(next_up(s), vec![Op::E(s * 100.0), Op::W(vec![1.0; n]), Op::E(s)], false, "epsilon(100s), weights, epsilon(s)", out);
}

pub fn run(ctx: &Ctx) {
    ctx.rule("[many-basis-functions: valid problems with 40..100 basis functions and 60..260 samples must expose residuals and coefficients after build] shapes-and-orders: exhaustive grid model length 0..12 x Y rows 0..12 x columns 0..4 (1 for the single right-hand-side constructors) x weights {absent, len=rows, len=model length, other 0..13; values random / all exactly 1 / constant} x the four constructors (new, mrhs, new_parallel, mrhs_parallel), each with 3 (quick) / 8 (thorough) call orders (permutations of observations/weights/epsilon and repetitions whose earlier values must be overwritten), occasionally without any observations call; verdict Ok <=> the specification's set of violated requirements is empty, Err(kind) => kind in the set, and an InvalidLengthOfData error must carry the model's output length and the row count of the observations in effect; a quarter of the models evaluate only after their set_params has been called once (lazily primed); accepted problems: params() == model's initial parameters (bitwise), residuals/coefficients present, identical to an explicit set_params(initial), identical across call orders (bitwise, incl. weighted data). threshold: one-column model with singular value exactly s / one ulp above: epsilon(±s), no call (machine epsilon), repeated calls (last wins). non-trivial = accepted problems and rejections with exactly one violated requirement");
    *ctx.exhaustive.lock().unwrap() = Some(true);
    let t = ctx.tier;
    let orders = t.pick(3, 16);
    let grid = 13 * 13 * 5 * 4 * 4;
    ctx.run_cases("shapes-and-orders", grid, t.pick(60.0, 600.0), |r, c, o| if c % 2 == 0 { shapes_case::<f64>(r, c, o, orders) } else { shapes_case::<f32>(r, c, o, orders) });
    ctx.run_cases("many-basis-functions", t.pick(200, 6000), t.pick(20.0, 120.0), |r, c, o| if c % 2 == 0 { wide_case::<f64>(r, c, o) } else { wide_case::<f32>(r, c, o) });
    ctx.run_cases("threshold", t.pick(3000, 60000), t.pick(10.0, 60.0), |r, c, o| if c % 2 == 0 { threshold_case::<f64>(r, c, o) } else { threshold_case::<f32>(r, c, o) });
    ctx.extra("shape_grid", json!({"model_length": "0..12", "rows": "0..12", "cols": "0..4", "weights": 4, "constructors": 4, "combinations": grid}));
}
