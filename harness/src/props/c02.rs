//! C02 — residuals, best fit, weighted data and coefficients describe one single state

use crate::gen::*;
use crate::la::Mat;
use crate::oracle::*;
use crate::problem::*;
use crate::rng::Rng;
use crate::run::*;
use crate::sc::{widen, Sc};
use nalgebra::{DMatrix, DVector};
use serde_json::json;

/// W·Y exactly as one multiplication per element in T
fn expected_weighted_data<T: Sc>(spec: &ProblemSpec) -> Vec<u64> {
    let mut v = Vec::with_capacity(spec.y.r * spec.y.c + 2);
    v.push(spec.y.r as u64);
    v.push(spec.y.c as u64);
    for s in 0..spec.y.c {
        for i in 0..spec.y.r {
            let y = T::of(spec.y.at(i, s));
            let val = match &spec.w {
                Some(w) => T::of(w[i]) * y,
                None => y,
            };
            v.push(val.bits());
        }
    }
    v
}

/// residual identity at one state; returns false if a violation was recorded
#[allow(clippy::too_many_arguments)]
pub fn check_identity<T: Sc>(out: &mut CaseOut, stream: &str, case: u64, spec: &ProblemSpec, yw: &Mat, alpha: &[f64], coeff: &Mat, resid: &[f64], whence: &str) -> bool {
    let v = View::new::<T>(spec, alpha);
    if !v.finite() || !coeff.all_finite() {
        out.inconcl("non-finite state");
        return true;
    }
    if !(1e-140..=1e140).contains(&v.sigma1()) {
        out.inconcl("extreme scale");
        return true;
    }
    out.evals += 1;
    if coeff.r != v.m || coeff.c != spec.s() {
        violation(out, stream, case, format!("coefficient shape {}x{} ({whence})", coeff.r, coeff.c), spec.to_json());
        return false;
    }
    let ratio = residual_identity_ratio(&v, yw, coeff, resid, T::EPS);
    let rn = crate::la::norm2(resid);
    let nontrivial = rn > 1e-3 * yw.fro() && (spec.s() > 1 || spec.w.as_ref().map(|w| w.iter().any(|x| *x != w[0])).unwrap_or(false));
    if nontrivial {
        out.nontrivial.push(crate::rng::hash_u64s([spec.hash(), crate::rng::hash_u64s(alpha.iter().map(|a| a.to_bits()))]));
    }
    if ratio <= 1.0 {
        out.ratio("residual_identity", ratio);
        true
    } else {
        violation(out, stream, case, format!("residual vector is not vec(W(Y - Phi(alpha) C)) for the reported alpha and coefficients ({whence}): worst element error/tolerance = {ratio:.3e}, length {} (expected {})", resid.len(), v.n * spec.s()),
            json!({"problem": spec.to_json(), "alpha": alpha, "coeff": coeff.d, "residuals": fmt_vec(resid), "ratio": ratio}));
        false
    }
}

pub fn check_best_fit<T: Sc>(out: &mut CaseOut, stream: &str, case: u64, spec: &ProblemSpec, fit: &AnyFit<T>) {
    let alpha: Vec<f64> = fit.nonlinear_parameters().iter().map(|v| v.w()).collect();
    let pp: Vec<f64> = fit.problem_params().iter().map(|v| v.w()).collect();
    out.evals += 1;
    if alpha.iter().map(|a| a.to_bits()).ne(pp.iter().map(|a| a.to_bits())) {
        violation(out, stream, case, "FitResult::nonlinear_parameters differs from the parameters of the returned problem", json!({"problem": spec.to_json(), "nonlinear_parameters": alpha, "problem_params": pp}));
        return;
    }
    let (Some(c), Some(bf)) = (fit.coeffs(), fit.best_fit()) else {
        if fit.coeffs().is_some() != fit.best_fit().is_some() {
            // best_fit may only be absent together with the coefficients (model evaluates in this stream)
            violation(out, stream, case, "best_fit and linear_coefficients disagree about presence", spec.to_json());
        }
        return;
    };
    let c = widen(&c);
    let bf = widen(&bf);
    let phi = spec.model.phi64::<T>(&alpha);
    if !phi.all_finite() || !c.all_finite() {
        out.inconcl("non-finite state");
        return;
    }
    if bf.r != phi.r || bf.c != spec.s() {
        violation(out, stream, case, format!("best_fit has shape {}x{}, observations have {}x{}", bf.r, bf.c, phi.r, spec.s()), spec.to_json());
        return;
    }
    let want = phi.mul(&c);
    let absw = phi.abs().mul(&c.abs());
    let mut worst: f64 = 0.0;
    for s in 0..bf.c {
        for i in 0..bf.r {
            let tol = TAU_RESID * T::EPS * (phi.c as f64) * absw.at(i, s) + 64.0 * tiny_for(T::EPS);
            worst = worst.max((bf.at(i, s) - want.at(i, s)).abs() / tol);
        }
    }
    out.count("best_fit_checked");
    if worst <= 1.0 {
        out.ratio("best_fit", worst);
    } else {
        violation(out, stream, case, format!("best_fit is not the unweighted Phi(alpha)·C: worst element error/tolerance = {worst:.3e}"),
            json!({"problem": spec.to_json(), "alpha": alpha, "coeff": c.d, "best_fit": bf.d}));
    }
}

fn history_case<T: Sc>(rng: &mut Rng, case: u64, out: &mut CaseOut, maxlen: usize) {
    let stream = "histories";
    let g = gen_problem(rng, &GenOpts { nmax: if T::IS_F64 { 80 } else { 40 }, smax: 5, ..Default::default() });
    let mut spec = g.spec;
    spec.alpha0 = wide_alpha(rng, &g.alpha_true);
    let mut prob = match build_problem_auto::<T>(&spec) {
        Ok(p) => p,
        Err(e) => {
            violation(out, stream, case, format!("valid problem rejected by the builder: {e}"), spec.to_json());
            return;
        }
    };
    out.seen("flavour", format!("{}{}", if spec.mrhs { "mrhs" } else { "single" }, if spec.par { "+parallel" } else { "" }));
    out.seen("weights", g.wclass.name());
    // weighted data = W·Y for the observations exactly as supplied (bitwise: one multiplication per element)
    out.evals += 1;
    let wd: DMatrix<T> = prob.weighted_data();
    if crate::sc::bits_of(&wd) != expected_weighted_data::<T>(&spec) {
        violation(out, stream, case, "weighted_data() is not W·Y for the supplied observations", json!({"problem": spec.to_json(), "weighted_data": fmt_vec(&widen(&wd).d)}));
        return;
    }
    let yw = widen(&wd);
    let mut last_alpha: Vec<T> = spec.alpha0.iter().map(|v| T::of(*v)).collect();
    let len = rng.int(1, maxlen);
    let mut applied: Vec<Vec<f64>> = Vec::new();
    for step in 0..=len {
        // observe
        let params = prob.params();
        if params.iter().map(|v| v.bits()).ne(last_alpha.iter().map(|v| v.bits())) {
            out.evals += 1;
            violation(out, stream, case, format!("params() does not report the parameters applied last (step {step})"), json!({"problem": spec.to_json(), "reported": params.iter().map(|v| v.w()).collect::<Vec<_>>(), "applied": last_alpha.iter().map(|v| v.w()).collect::<Vec<_>>()}));
            return;
        }
        let alpha: Vec<f64> = params.iter().map(|v| v.w()).collect();
        match (prob.coeffs(), prob.residuals()) {
            (Some(c), Some(r)) => {
                let r: Vec<f64> = r.iter().map(|v| v.w()).collect();
                // quantities "computed for the reported alpha" cannot be finite where the weighted
                // basis matrix at that alpha is not: finite values there are leftovers of another alpha
                let v = View::new::<T>(&spec, &alpha);
                if !v.phi_w.all_finite() && r.iter().all(|x| x.is_finite()) && widen(&c).all_finite() {
                    out.evals += 1;
                    violation(out, stream, case, format!("the basis matrix at the reported alpha {alpha:?} is not finite, yet finite residuals and coefficients are exposed (history step {step}): they were not computed for this alpha"),
                        json!({"problem": spec.to_json(), "alpha": alpha}));
                    return;
                }
                if !check_identity::<T>(out, stream, case, &spec, &yw, &alpha, &widen(&c), &r, &format!("history step {step}")) {
                    return;
                }
            }
            (None, None) => {}
            _ => {
                out.evals += 1;
                violation(out, stream, case, "residuals and coefficients disagree about presence", spec.to_json());
                return;
            }
        }
        if crate::sc::bits_of(&prob.weighted_data()) != crate::sc::bits_of(&wd) {
            violation(out, stream, case, "weighted_data() changed during the history", spec.to_json());
            return;
        }
        if step == len {
            break;
        }
        if rng.chance(0.8) {
            let fresh = wide_alpha(rng, &g.alpha_true);
            applied.push(alpha.clone());
            let mut a = next_alpha_hist(rng, &applied, fresh);
            if rng.chance(0.08) {
                // a step into a region where basis functions overflow
                let k = rng.below(a.len());
                a[k] = -1e-3 * a[k].abs();
                out.count("overflowing_updates");
            }
            last_alpha = a.iter().map(|v| T::of(*v)).collect();
            prob.set_params(&DVector::from_vec(last_alpha.clone()));
        } else {
            let cfg = LmCfg::random(rng);
            let fit = prob.fit(&cfg.make::<T>());
            out.count("fits_inside_histories");
            check_best_fit(out, stream, case, &spec, &fit);
            last_alpha = fit.problem_params().iter().cloned().collect();
            prob = fit.into_problem();
        }
    }
    if case < 2 {
        out.sample(json!({"stream": stream, "problem": spec.to_json(), "history_length": len}));
    }
}

fn fit_case<T: Sc>(rng: &mut Rng, case: u64, out: &mut CaseOut) {
    let stream = "fit-exchanges";
    let g = gen_problem(rng, &GenOpts { nmax: 50, smax: 4, ..Default::default() });
    let mut spec = g.spec;
    spec.alpha0 = perturb_alpha(rng, &g.alpha_true, 0.3);
    let prob = match build_problem_auto::<T>(&spec) {
        Ok(p) => p,
        Err(e) => {
            violation(out, stream, case, format!("valid problem rejected by the builder: {e}"), spec.to_json());
            return;
        }
    };
    let cfg = LmCfg::random(rng);
    let (prob, _rep, steps) = minimize_spied(&cfg.make::<T>(), prob);
    let yw = widen(&prob.weighted_data());
    out.add("optimizer_steps_observed", steps.len() as u64);
    for (i, st) in steps.iter().enumerate() {
        if let Some(ain) = &st.alpha_in {
            out.evals += 1;
            if ain.iter().map(|v| v.bits()).ne(st.params_after.iter().map(|v| v.bits())) {
                violation(out, stream, case, format!("after the optimizer applied alpha, params() reports a different vector (step {i})"), json!({"problem": spec.to_json()}));
                return;
            }
        }
        let alpha: Vec<f64> = st.params_after.iter().map(|v| v.w()).collect();
        for r in &st.resid {
            match (r, &st.coeff) {
                (Some(r), Some(c)) => {
                    let r: Vec<f64> = r.iter().map(|v| v.w()).collect();
                    out.count("residual_vectors_handed_to_optimizer");
                    if !check_identity::<T>(out, stream, case, &spec, &yw, &alpha, &widen(c), &r, &format!("optimizer step {i}")) {
                        return;
                    }
                }
                (None, None) => {}
                _ => {
                    out.evals += 1;
                    violation(out, stream, case, format!("residuals handed to the optimizer while coefficients absent or vice versa (step {i})"), spec.to_json());
                    return;
                }
            }
        }
    }
    if case < 1 {
        out.sample(json!({"stream": stream, "problem": spec.to_json(), "optimizer": cfg.to_json(), "steps": steps.len()}));
    }
}

/// rank-deficient states (two exactly equal decay constants, user threshold): the identity must
/// hold for the *reported* (truncated, minimum-norm) coefficients as well
fn rankdef_case<T: Sc>(rng: &mut Rng, case: u64, out: &mut CaseOut) {
    let stream = "rank-deficient";
    let (g, hist) = gen_rank_deficient(rng, T::IS_F64, 4, 4);
    let spec = g.spec;
    let Ok(mut prob) = build_problem_auto::<T>(&spec) else {
        violation(out, stream, case, "valid problem rejected", spec.to_json());
        return;
    };
    let yw = widen(&prob.weighted_data());
    for step in 0..=hist.len() {
        let alpha: Vec<f64> = prob.params().iter().map(|v| v.w()).collect();
        match (prob.coeffs(), prob.residuals()) {
            (Some(c), Some(r)) => {
                let r: Vec<f64> = r.iter().map(|v| v.w()).collect();
                out.count("rank_deficient_states_checked");
                if !check_identity::<T>(out, stream, case, &spec, &yw, &alpha, &widen(&c), &r, &format!("rank-deficient state {step}")) {
                    return;
                }
            }
            _ => {
                out.evals += 1;
                violation(out, stream, case, "finite rank-deficient basis matrix but no residuals/coefficients", json!({"problem": spec.to_json(), "alpha": alpha}));
                return;
            }
        }
        if step < hist.len() {
            prob.set_params(&DVector::from_iterator(hist[step].len(), hist[step].iter().map(|v| T::of(*v))));
        }
    }
    // a complete fit started at the rank-deficient point
    let fit = prob.fit(&LmCfg::random(rng).make::<T>());
    check_best_fit(out, stream, case, &spec, &fit);
    if let (Some(c), Some(r)) = (fit.coeffs(), fit.problem_residuals()) {
        let alpha: Vec<f64> = fit.problem_params().iter().map(|v| v.w()).collect();
        let r: Vec<f64> = r.iter().map(|v| v.w()).collect();
        check_identity::<T>(out, stream, case, &spec, &yw, &alpha, &widen(&c), &r, "after a fit started at a rank-deficient point");
    }
    if case < 1 {
        out.sample(json!({"stream": stream, "problem": spec.to_json()}));
    }
}

pub fn run(ctx: &Ctx) {
    ctx.rule("histories: zoo problems (1..5 columns of different magnitude, six weight classes, f32/f64, all four flavours) driven through 1..10 (quick) / 1..50 (thorough) steps mixing caller-driven set_params (alpha 0.4x..2.5x around the generating values, so residuals are far from zero) and complete fits under random optimizer settings; at every state: residual identity recomputed in f64 from the reported coefficients, the supplied Y and w and the oracle's Phi, params() == last applied alpha (bitwise), weighted_data == W·Y (bitwise, one multiplication per element), after fits best_fit == unweighted Phi(alpha^)·C^ with the observations' shape and nonlinear_parameters == problem params. fit-exchanges: every residual vector handed to the optimizer (ProblemSpy). rank-deficient: problems with two exactly equal decay constants and a user threshold (truncated, minimum-norm coefficients), states and a fit started there. non-trivial = |r| > 1e-3 |Y_w| and (weights non-constant or S>1); distinct = (problem, alpha) hash");
    ctx.assume("oracle Phi from the zoo's closed formulas evaluated in the scalar type under test; tolerance 16·eps·M·(|y_w|+|Phi_w||C|) per element");
    let t = ctx.tier;
    let maxlen = t.pick(10, 50);
    let b = t.pick(30.0, 900.0);
    ctx.run_cases("histories", t.pick(6000, 150000), b, |r, c, o| if c % 3 == 0 { history_case::<f32>(r, c, o, maxlen) } else { history_case::<f64>(r, c, o, maxlen) });
    ctx.run_cases("fit-exchanges", t.pick(2500, 75000), b, |r, c, o| if c % 4 == 0 { fit_case::<f32>(r, c, o) } else { fit_case::<f64>(r, c, o) });
    ctx.run_cases("rank-deficient", t.pick(2500, 60000), b, |r, c, o| if c % 3 == 0 { rankdef_case::<f32>(r, c, o) } else { rankdef_case::<f64>(r, c, o) });
}
