//! C04 — fit() reports success truthfully and returns a coherent, no-worse final state

use crate::gen::*;
use crate::la;
use crate::oracle::*;
use crate::problem::*;
use crate::rng::Rng;
use crate::run::*;
use crate::sc::{widen, Sc};
use crate::spy::{Call, Event, SpyCtl};
use serde_json::json;
use std::sync::atomic::Ordering::SeqCst;

fn call_sig(log: &[Event]) -> Vec<(u8, u64)> {
    log.iter()
        .filter(|e| e.ret)
        .map(|e| match e.call {
            Call::SetParams => (0u8, crate::rng::hash_u64s(e.alpha.iter().cloned())),
            Call::Eval => (1, 0),
            Call::Deriv(k) => (2, k as u64),
        })
        .collect()
}

fn fit_case<T: Sc>(rng: &mut Rng, case: u64, out: &mut CaseOut) {
    let stream = "fits";
    let g = gen_problem(rng, &GenOpts { nmax: 50, smax: 3, noise: if rng_chance(case) { 0.0 } else { 0.05 }, ..Default::default() });
    let mut spec = g.spec;
    // sequential here: the call log of the parallel flavour is schedule dependent (C11 covers it)
    spec.par = false;
    spec.alpha0 = match rng.below(3) {
        0 => perturb_alpha(rng, &g.alpha_true, 0.1),
        1 => g.alpha_true.iter().map(|a| a * rng.logrange(0.2, 5.0)).collect(),
        _ => wide_alpha(rng, &g.alpha_true),
    };
    if rng.chance(0.15) {
        spec.eps = Some(rng.logrange(1e-8, 0.5));
    }
    fit_checks::<T>(rng, case, out, stream, spec);
}

/// fits that start (and, by symmetry, end) at a rank-deficient point with a user threshold
fn rankdef_fit_case<T: Sc>(rng: &mut Rng, case: u64, out: &mut CaseOut) {
    let (g, _hist) = gen_rank_deficient(rng, T::IS_F64, 3, 0);
    let mut spec = g.spec;
    spec.par = false;
    fit_checks::<T>(rng, case, out, "rank-deficient-fits", spec);
}

/// fits through the parallel constructors (1..7 right-hand sides): the call log of the parallel flavour is
/// schedule dependent, so there is no twin here; report, Ok/Err, budget and the final state are checked
fn parallel_fit_case<T: Sc>(rng: &mut Rng, case: u64, out: &mut CaseOut) {
    let stream = "parallel-fits";
    let g = gen_problem(rng, &GenOpts { nmax: 40, smax: 7, noise: 0.03, ..Default::default() });
    let mut spec = g.spec;
    spec.par = true;
    spec.alpha0 = perturb_alpha(rng, &g.alpha_true, 0.2);
    let cfg = LmCfg::random(rng);
    let lm = cfg.make::<T>();
    let np = spec.model.np();
    let pool = rayon::ThreadPoolBuilder::new().num_threads(*rng.pick(&[1usize, 2, 3, 8])).build().unwrap();
    let ctl = SpyCtl::new();
    let Ok(p1) = pool.install(|| build_problem::<T>(&spec, &ctl)) else {
        violation(out, stream, case, "valid problem rejected", spec.to_json());
        return;
    };
    let yw0 = widen(&p1.weighted_data());
    let r0 = p1.residuals();
    let evals_before = ctl.n_eval.load(SeqCst);
    let fit = pool.install(|| p1.fit(&lm));
    let evals_in_fit = ctl.n_eval.load(SeqCst) - evals_before;
    out.evals += 1;
    out.nontrivial.push(crate::rng::hash_u64s([spec.hash(), crate::rng::fnv(cfg.to_json().to_string().as_bytes())]));
    out.seen("right_hand_sides_parallel", format!("{}", spec.s()));
    let term = fit.termination();
    let success = fit.term_success();
    if fit.is_ok() != success {
        violation(out, stream, case, format!("parallel fit returned {} for termination {term}", if fit.is_ok() { "Ok" } else { "Err" }), json!({"problem": spec.to_json(), "optimizer": cfg.to_json()}));
        return;
    }
    let max_fev = cfg.max_fev(np) as u64;
    if fit.report().number_of_evaluations as u64 > max_fev || evals_in_fit > max_fev {
        violation(out, stream, case, format!("evaluation budget exceeded in a parallel fit: {} evaluations, budget {max_fev}", fit.report().number_of_evaluations), json!({"problem": spec.to_json(), "optimizer": cfg.to_json()}));
        return;
    }
    if !success {
        return;
    }
    let alpha: Vec<f64> = fit.nonlinear_parameters().iter().map(|v| v.w()).collect();
    let (Some(c), Some(r)) = (fit.coeffs(), fit.problem_residuals()) else {
        violation(out, stream, case, format!("successful parallel fit ({term}) without coefficients/residuals"), json!({"problem": spec.to_json()}));
        return;
    };
    let c = widen(&c);
    let r: Vec<f64> = r.iter().map(|v| v.w()).collect();
    let nv = out.violations.len();
    crate::props::c01::check_state::<T>(out, stream, case, &spec, &yw0, &alpha, &c, T::EPS, "final state of a successful parallel fit");
    if out.violations.len() > nv {
        return;
    }
    if !crate::props::c02::check_identity::<T>(out, stream, case, &spec, &yw0, &alpha, &c, &r, "final state of a successful parallel fit") {
        return;
    }
    let obj = fit.report().objective_function.w();
    let want = objective(&r);
    let tol = if T::IS_F64 { 1e-12 } else { 32.0 * T::EPS };
    if want > 1e-280 && (obj - want).abs() / want > tol {
        violation(out, stream, case, format!("parallel fit: reported objective {obj:e} is not half the squared norm of the returned residuals {want:e}"), json!({"problem": spec.to_json(), "optimizer": cfg.to_json()}));
        return;
    }
    if let Some(r0) = r0 {
        let r0: Vec<f64> = r0.iter().map(|v| v.w()).collect();
        if want > objective(&r0) * (1.0 + 8.0 * T::EPS) {
            violation(out, stream, case, "parallel fit: objective after a successful fit is larger than at the initial guess", json!({"problem": spec.to_json(), "optimizer": cfg.to_json()}));
        }
    }
}

fn fit_checks<T: Sc>(rng: &mut Rng, case: u64, out: &mut CaseOut, stream: &str, spec: ProblemSpec) {
    let mut spec = spec;
    if spec.eps.is_none() && rng.chance(0.15) {
        // a user threshold that is not negligible against the singular values but truncates nothing:
        // 1/16 .. 1/64 of the smallest singular value at the start
        let v = crate::oracle::View::new::<T>(&spec, &spec.alpha0);
        if v.finite() && v.sigma_min() > 1e3 * T::EPS * v.sigma1() {
            spec.eps = Some(crate::sc::rt::<T>(v.sigma_min() / rng.range(16.0, 64.0)) * rng.sign());
            out.count("fits_with_a_user_threshold_below_all_singular_values");
        }
    }
    let cfg = LmCfg::random(rng);
    let lm = cfg.make::<T>();
    let np = spec.model.np();
    // (i) the real fit, model calls logged by the ModelSpy
    let ctl = SpyCtl::logging();
    let Ok(p1) = build_problem::<T>(&spec, &ctl) else {
        violation(out, stream, case, "valid problem rejected", spec.to_json());
        return;
    };
    let _ = ctl.take_log();
    // in a fifth of the cases the model fails at some call during the fit (transient or persistent);
    // the twin gets the same fault at the same call index
    let fault: Option<(u64, bool)> = if rng.chance(0.2) { Some((rng.int(2, 40) as u64, rng.chance(0.5))) } else { None };
    if let Some((off, persistent)) = fault {
        ctl.set_fault((ctl.calls() + off) as i64, persistent);
        out.count("fits_with_a_model_failure_injected");
    }
    let evals_before = ctl.n_eval.load(SeqCst);
    let fit = p1.fit(&lm);
    ctl.set_fault(-1, false);
    let evals_in_fit = ctl.n_eval.load(SeqCst) - evals_before;
    let log_fit = ctl.take_log();
    // (ii) the twin: same optimizer over the spied problem
    let ctl2 = SpyCtl::logging();
    let p2 = build_problem::<T>(&spec, &ctl2).expect("twin build");
    let _ = ctl2.take_log();
    if let Some((off, persistent)) = fault {
        ctl2.set_fault((ctl2.calls() + off) as i64, persistent);
    }
    let (p2, rep2, steps) = minimize_spied(&lm, p2);
    ctl2.set_fault(-1, false);
    let log_twin = ctl2.take_log();
    out.evals += 1;
    out.nontrivial.push(crate::rng::hash_u64s([spec.hash(), crate::rng::fnv(cfg.to_json().to_string().as_bytes())]));
    let term = fit.termination();
    if case < 16 {
        out.sample(json!({"problem": spec.to_json(), "optimizer": cfg.to_json(), "termination": term, "evaluations": fit.report().number_of_evaluations, "budget": cfg.max_fev(np)}));
    }
    out.seen("terminations", term.split(['(', ' ', '{']).next().unwrap_or("").to_string());
    // fit == minimize + wrap
    if call_sig(&log_fit) != call_sig(&log_twin) || term != format!("{:?}", rep2.termination) || fit.report().number_of_evaluations != rep2.number_of_evaluations
        || fit.problem_params().iter().map(|v| v.bits()).ne(p2.params().iter().map(|v| v.bits()))
    {
        violation(out, stream, case, format!("LevMarSolver::fit does not behave like minimize + wrap: terminations {term} vs {:?}, model call sequences {} vs {} calls", rep2.termination, log_fit.len(), log_twin.len()),
            json!({"problem": spec.to_json(), "optimizer": cfg.to_json()}));
        return;
    }
    // Ok/Err reflects the termination reason
    let success = fit.term_success();
    if fit.is_ok() != success || fit.was_successful() != success {
        violation(out, stream, case, format!("fit returned {} for termination {term}", if fit.is_ok() { "Ok" } else { "Err" }), json!({"problem": spec.to_json(), "optimizer": cfg.to_json()}));
        return;
    }
    out.count(if success { "successful_fits" } else { "failed_fits" });
    // budget
    let max_fev = cfg.max_fev(np) as u64;
    let noe = fit.report().number_of_evaluations as u64;
    out.ratio("evaluations_over_budget", noe as f64 / max_fev as f64);
    if noe > max_fev || evals_in_fit > max_fev {
        violation(out, stream, case, format!("evaluation budget exceeded: number_of_evaluations={noe}, model evaluations during fit={evals_in_fit}, budget patience·(P+1)={max_fev}"), json!({"problem": spec.to_json(), "optimizer": cfg.to_json()}));
        return;
    }
    // classification of the ending
    let ended_on_reset = steps.len() > 1 && steps.last().map(|s| s.resid.is_empty() && s.jac.is_empty()).unwrap_or(false);
    if ended_on_reset {
        out.count("fits_ending_with_reapplied_parameters");
    }
    out.add("trial_steps", steps.len().saturating_sub(1) as u64);
    if !success {
        return;
    }
    if fault.is_some() && ctl.n_injected.load(SeqCst) > 0 {
        // the model failed during this fit (at a call the optimizer did not observe, e.g. the final
        // re-application of the accepted parameters): the coherence clauses are stated for models that
        // evaluate without error; the twin comparison above has been made
        out.count("successful_fits_with_an_unobserved_model_failure");
        return;
    }
    // coherent final state
    let alpha: Vec<f64> = fit.nonlinear_parameters().iter().map(|v| v.w()).collect();
    let (Some(c), Some(r)) = (fit.coeffs(), fit.problem_residuals()) else {
        violation(out, stream, case, format!("successful fit ({term}) without coefficients/residuals"), json!({"problem": spec.to_json(), "optimizer": cfg.to_json()}));
        return;
    };
    let yw = widen(&fit.weighted_data());
    let c = widen(&c);
    let r: Vec<f64> = r.iter().map(|v| v.w()).collect();
    // C-hat optimal for alpha-hat (C01 certificate with its KF-1 triage), residual identity (C02)
    let nv = out.violations.len();
    let thr = spec.eps.map(|e| crate::sc::rt::<T>(e).abs()).unwrap_or(T::EPS);
    crate::props::c01::check_state::<T>(out, stream, case, &spec, &yw, &alpha, &c, thr, "final state of a successful fit");
    if out.violations.len() > nv {
        return;
    }
    if !crate::props::c02::check_identity::<T>(out, stream, case, &spec, &yw, &alpha, &c, &r, "final state of a successful fit") {
        return;
    }
    // objective = 1/2 |r|^2
    let obj = fit.report().objective_function.w();
    let want = objective(&r);
    let tol = if T::IS_F64 { 1e-12 } else { 32.0 * T::EPS };
    let rel = (obj - want).abs() / want.abs().max(f64::MIN_POSITIVE);
    if want > 1e-280 {
        out.ratio("objective_vs_half_squared_residual_norm", rel / tol);
        if rel > tol {
            violation(out, stream, case, format!("reported objective {obj:e} is not half the squared norm of the returned residuals {want:e} ({term}, ended on re-applied parameters: {ended_on_reset})"), json!({"problem": spec.to_json(), "optimizer": cfg.to_json()}));
            return;
        }
    }
    // not worse than the start
    if let Some(Some(r0)) = steps.first().and_then(|s| s.resid.first()) {
        let r0: Vec<f64> = r0.iter().map(|v| v.w()).collect();
        let o0 = objective(&r0);
        out.count("monotonicity_checked");
        if want > o0 * (1.0 + 8.0 * T::EPS) {
            violation(out, stream, case, format!("objective after a successful fit ({want:e}) is larger than at the initial guess ({o0:e})"), json!({"problem": spec.to_json(), "optimizer": cfg.to_json()}));
            return;
        }
    }
    let _ = la::norm2(&[0.0]);
}

fn rng_chance(case: u64) -> bool {
    case % 2 == 0
}

pub fn run(ctx: &Ctx) {
    ctx.rule("fits of zoo problems (1..3 right-hand sides, six weight classes, builder-made and hand-written, f32/f64, noiseless and 5% noise) from starts within 10%, 0.2x..5x and 0.4x..2.5x of the generating parameters under random optimizer settings (patience 1..100, tolerances 0..1e-2, step bound 0.01..100, scale_diag on/off, and the default); each fit is run twice: the real LevMarSolver::fit with a ModelSpy log, and minimize over a ProblemSpy with the same optimizer; the two call logs, reports and final parameters must be identical, then: Ok <=> successful termination, model evaluations and number_of_evaluations <= patience·(P+1), and for successful fits the C01 certificate and C02 identity at the returned state, objective = 1/2|r|^2 (1e-12), objective <= objective at the initial guess. distinct = (problem, optimizer configuration); every fit is non-trivial");
    ctx.assume("the twin (call-log) comparison uses the sequential flavour only, because the parallel flavour's call log is schedule dependent; parallel fits (1..7 right-hand sides, pools of 1/2/3/8 threads) are checked on report, budget and final state");
    let t = ctx.tier;
    ctx.run_cases("fits", t.pick(12000, 640000), t.pick(20.0, 900.0), |r, c, o| if c % 4 == 0 { fit_case::<f32>(r, c, o) } else { fit_case::<f64>(r, c, o) });
    ctx.run_cases("parallel-fits", t.pick(1500, 60000), t.pick(15.0, 600.0), |r, c, o| if c % 4 == 0 { parallel_fit_case::<f32>(r, c, o) } else { parallel_fit_case::<f64>(r, c, o) });
    ctx.run_cases("rank-deficient-fits", t.pick(2500, 120000), t.pick(15.0, 900.0), |r, c, o| if c % 4 == 0 { rankdef_fit_case::<f32>(r, c, o) } else { rankdef_fit_case::<f64>(r, c, o) });
}
