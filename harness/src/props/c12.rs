//! C12 — fit statistics satisfy their defining identities; under-determined fits give Err
//! (in every build profile, without panicking). Runs in child processes of both
//! the overflow-checked and the release build; panics are events.

use crate::gen::*;
use crate::la::{self, Mat};
use crate::problem::*;
use crate::procmon::*;
use crate::rng::Rng;
use crate::run::*;
use crate::sc::{widen, Sc};
use crate::spy::SpyCtl;
use crate::zoo::*;
use serde_json::json;

/// a model with exactly `m` basis functions and `p` nonlinear parameters, if the zoo can make one
pub fn shape_model(rng: &mut Rng, n: usize, m: usize, p: usize) -> Option<(ModelSpec, Vec<f64>)> {
    if p > 2 * m {
        return None;
    }
    let x = grid_r(rng, n, 0.2, 2.2, 6.2, 0.0);
    let mut basis: Vec<Basis> = Vec::new();
    // number of two-parameter functions needed so that all parameters can be used
    let two = p.saturating_sub(m);
    let mut next = 0usize;
    for _ in 0..two {
        basis.push(if rng.chance(0.5) { Basis::ExpCos(next, next + 1) } else { Basis::Gauss(next, next + 1) });
        next += 2;
    }
    // remaining functions: one parameter each until parameters are exhausted, then shared / invariant
    let mut inv = 0;
    while basis.len() < m {
        if next < p {
            basis.push(match rng.below(4) {
                0 => Basis::Exp(next),
                1 => Basis::Rat1(next),
                2 => Basis::Rat2(next),
                _ => Basis::ExpRate(next),
            });
            next += 1;
        } else if inv < 2 && rng.chance(0.5) {
            basis.push(if inv == 0 { Basis::Const } else { Basis::Lin });
            inv += 1;
        } else {
            // share an existing parameter with a different functional form
            let k = rng.below(p);
            let cand = [Basis::Exp(k), Basis::Rat1(k), Basis::Rat2(k), Basis::ExpRate(k), Basis::Sin(k)];
            let free: Vec<&Basis> = cand.iter().filter(|b| !basis.contains(b)).collect();
            if free.is_empty() {
                if inv < 2 {
                    basis.push(if inv == 0 { Basis::Const } else { Basis::Lin });
                    inv += 1;
                } else {
                    return None;
                }
            } else {
                basis.push((*rng.pick(&free)).clone());
            }
        }
    }
    rng.shuffle(&mut basis);
    let spec = ModelSpec { x, basis, np: p };
    if !spec.valid() {
        return None;
    }
    // parameters: positive, moderately separated; Gauss centres inside the range
    let mut alpha = vec![0.0; p];
    for k in 0..p {
        alpha[k] = rng.range(0.5, 1.5) * (1.0 + 0.8 * k as f64);
    }
    for b in &spec.basis {
        if let Basis::Gauss(mu, s) = b {
            alpha[*mu] = rng.range(1.0, 3.0);
            alpha[*s] = rng.range(0.5, 1.5);
        }
    }
    Some((spec, alpha))
}

fn case_t<T: Sc>(rng: &mut Rng, case: u64, out: &mut CaseOut, ops: &OpLog) {
    let stream = "shapes";
    // sweep the shape grid deterministically from the case index, so that every (M,P,N-M-P) is hit
    let m = 1 + (case % 6) as usize;
    let p = 1 + ((case / 6) % 4) as usize;
    let total = m + p;
    let n_choices: Vec<usize> = (1..=total + 3).collect();
    let n = n_choices[((case / 24) % n_choices.len() as u64) as usize];
    let Some((mspec, alpha)) = shape_model(rng, n, m, p) else {
        out.inconcl("shape not constructible from the zoo");
        return;
    };
    let exact = rng.chance(0.6);
    let g = gen_problem_for(rng, &GenOpts { noise: if exact { 0.0 } else { 0.02 }, force_s: Some(1), ..Default::default() }, mspec, alpha.clone());
    let mut spec = g.spec;
    spec.mrhs = false;
    if !exact {
        spec.alpha0 = perturb_alpha(rng, &alpha, 0.02);
    }
    if rng.chance(0.2) {
        // a user threshold that may truncate at the solution
        spec.eps = Some(rng.logrange(1e-6, 0.5) * rng.sign());
        out.count("cases_with_user_threshold");
    }
    if rng.chance(0.08) {
        // a fit that must fail: one observation is NaN or infinite (the objective is not finite)
        let i = rng.below(spec.y.r);
        spec.y.set(i, 0, *rng.pick(&[f64::NAN, f64::INFINITY, f64::NEG_INFINITY]));
        out.count("cases_with_a_non_finite_observation");
    }
    let cfg = if rng.chance(0.5) { LmCfg::default_cfg() } else { LmCfg::random(rng) };
    let lm = cfg.make::<T>();
    out.seen("relation", if n < total { "N<M+P" } else if n == total { "N=M+P" } else if n == total + 1 { "N=M+P+1" } else { "N>M+P+1" });
    out.seen("scalar", T::NAME);
    if case < 16 {
        out.sample(json!({"N": n, "M": m, "P": p, "scalar": T::NAME, "basis": spec.model.spec().map(|s| s.to_json())}));
    }

    // twin: plain fit to learn whether the fit itself succeeds and how many model calls it makes
    ops.op(&format!("twin fit N={n} M={m} P={p} {}", T::NAME));
    let ctl0 = SpyCtl::new();
    let Ok(p0) = build_problem::<T>(&spec, &ctl0) else {
        violation(out, stream, case, "valid problem rejected by the builder", spec.to_json());
        return;
    };
    let fit0 = p0.fit(&lm);
    let calls_fit = ctl0.calls();
    // "the fit failed" is judged by the optimizer's own report, not by the Ok/Err of varpro's fit
    let fit_ok = fit0.term_success();
    out.seen("terminations_of_the_plain_fit", fit0.termination().split('(').next().unwrap_or("").to_string());

    // the real thing
    ops.op(&format!("fit_with_statistics N={n} M={m} P={p} {}", T::NAME));
    let ctl = SpyCtl::new();
    let prob = build_problem::<T>(&spec, &ctl).expect("second build");
    let res = prob.fit_with_statistics(&lm);
    let calls_total = ctl.calls();
    out.evals += 1;
    out.nontrivial.push(crate::rng::hash_u64s([spec.hash(), n as u64]));
    match &res {
        Ok((fit, stats)) => {
            out.count("statistics_ok");
            if n <= total {
                violation(out, stream, case, format!("fit_with_statistics returned Ok for an under-determined fit: N={n} <= M+P={total}"), json!({"problem": spec.to_json(), "N": n, "M": m, "P": p}));
                return;
            }
            if !fit.term_success() {
                violation(out, stream, case, format!("fit_with_statistics returned Ok although the returned fit terminated unsuccessfully ({})", fit.termination()), json!({"problem": spec.to_json(), "optimizer": cfg.to_json()}));
                return;
            }
            if !fit_ok {
                violation(out, stream, case, format!("fit_with_statistics returned Ok although the same fit fails ({})", fit0.termination()), json!({"problem": spec.to_json(), "optimizer": cfg.to_json()}));
                return;
            }
            let eps = T::EPS;
            let wr = stats.weighted_residuals();
            let fr = fit.problem_residuals();
            let Some(fr) = fr else {
                violation(out, stream, case, "Ok result without residuals", spec.to_json());
                return;
            };
            let wr: Vec<f64> = wr.iter().map(|v| v.w()).collect();
            let fr: Vec<f64> = fr.iter().map(|v| v.w()).collect();
            if wr.len() != n || fr.len() != n {
                violation(out, stream, case, format!("weighted_residuals has length {} for N={n}", wr.len()), spec.to_json());
                return;
            }
            // identity with the final residuals of the fit: same data, same model state
            let yw = widen(&fit.weighted_data());
            let alpha_hat: Vec<f64> = fit.nonlinear_parameters().iter().map(|v| v.w()).collect();
            let view = crate::oracle::View::new::<T>(&spec, &alpha_hat);
            let c = widen(&fit.coeffs().unwrap());
            let absfit = view.phi_w.abs().mul(&c.abs());
            let mut worst: f64 = 0.0;
            for i in 0..n {
                let tol = crate::oracle::TAU_RESID * eps * (m as f64) * (yw.at(i, 0).abs() + absfit.at(i, 0)) + f64::MIN_POSITIVE;
                worst = worst.max((wr[i] - fr[i]).abs() / tol);
            }
            out.ratio("weighted_residuals_vs_final_residuals", worst);
            if !(worst <= 1.0) {
                violation(out, stream, case, format!("weighted_residuals differ from the final residuals of the fit (ratio {worst:.3e})"), json!({"problem": spec.to_json(), "stats": wr, "fit": fr}));
            }
            let dof = (n - total) as f64;
            // the identities are relations between reported quantities in T
            let chi2 = stats.reduced_chi2().w();
            let want = la::dot(&wr, &wr) / dof;
            let rel = ((chi2 - want) / want.abs().max(f64::MIN_POSITIVE)).abs();
            let tol = if T::IS_F64 { 1e-12 } else { 64.0 * eps * (n as f64) };
            out.ratio("reduced_chi2", rel / tol);
            if !(rel <= tol) && want > 1e-300 {
                violation(out, stream, case, format!("reduced_chi2 = {chi2:e}, but |r|^2/(N-M-P) = {want:e} (N={n}, M={m}, P={p})"), json!({"problem": spec.to_json()}));
            }
            let se = stats.regression_standard_error().w();
            let want_se = T::of(chi2).w().sqrt();
            let rel = ((se - want_se) / want_se.abs().max(f64::MIN_POSITIVE)).abs();
            out.ratio("regression_standard_error", rel / (4.0 * eps));
            if !(rel <= 4.0 * eps) && want_se > 1e-150 {
                violation(out, stream, case, format!("regression_standard_error = {se:e} but sqrt(reduced_chi2) = {want_se:e}"), json!({"problem": spec.to_json()}));
            }
        }
        Err(fit) => {
            out.count(if n <= total { "err_underdetermined" } else if !fit_ok { "err_fit_failed" } else { "err_other" });
            // "returns the fit result as Err": what comes back is the result of the fit that was run -
            // the deterministic twin fit above ended the same way at the same parameters
            let same = fit.termination() == fit0.termination()
                && fit.report().number_of_evaluations == fit0.report().number_of_evaluations
                && fit.problem_params().iter().map(|v| v.bits()).eq(fit0.problem_params().iter().map(|v| v.bits()));
            if !same {
                violation(out, stream, case, format!("the Err returned by fit_with_statistics is not the result of the fit: termination {} after {} evaluations, the same fit alone ends with {} after {}", fit.termination(), fit.report().number_of_evaluations, fit0.termination(), fit0.report().number_of_evaluations),
                    json!({"problem": spec.to_json(), "N": n, "M": m, "P": p, "optimizer": cfg.to_json()}));
                return;
            }
        }
    }
    if fit_ok && n <= total {
        out.count("underdetermined_with_successful_fit");
    }
    if fit_ok && res.is_ok() {
        // model failing while the statistics are computed: every call position of the statistics stage
        let stat_calls = calls_total.saturating_sub(calls_fit);
        out.add("statistics_stage_model_calls", stat_calls);
        for k in calls_fit..calls_total {
            for persistent in [false, true] {
                ops.op(&format!("fit_with_statistics with model failure at call {k} persistent={persistent}"));
                let ctl = SpyCtl::new();
                ctl.set_fault(k as i64, persistent);
                let prob = build_problem::<T>(&spec, &ctl).expect("build");
                let r = prob.fit_with_statistics(&lm);
                out.evals += 1;
                out.count("statistics_stage_faults_injected");
                if ctl.n_injected.load(std::sync::atomic::Ordering::SeqCst) == 0 {
                    out.inconcl("fault position not reached");
                    continue;
                }
                if r.is_ok() {
                    violation(out, stream, case, format!("model failed at call {k} during the statistics computation but fit_with_statistics returned Ok"), json!({"problem": spec.to_json(), "fault_at": k, "persistent": persistent}));
                }
            }
        }
    }
    if case < 4 {
        out.sample(json!({"N": n, "M": m, "P": p, "scalar": T::NAME, "basis": spec.model.spec().map(|s| s.to_json()), "fit_ok": fit_ok, "statistics_ok": res.is_ok()}));
    }
    let _ = Mat::zeros(0, 0);
}

pub fn case(rng: &mut Rng, case: u64, out: &mut CaseOut, ops: &OpLog) {
    if (case / 7) % 3 == 0 {
        case_t::<f32>(rng, case, out, ops)
    } else {
        case_t::<f64>(rng, case, out, ops)
    }
}

pub fn run(ctx: &Ctx) {
    ctx.rule("shape sweep: M in 1..6 x P in 1..4 x N in 1..M+P+3 (so N<M+P, N=M+P, N=M+P+1 occur for every shape), zoo models with shared parameters, exact or slightly noisy data so that the fit itself succeeds and the statistics stage is reached; all weight classes; f32/f64; default and random optimizer settings (whether the fit failed is judged by the optimizer's own termination report); 8 % of the cases carry one NaN/infinite observation, so that the fit must fail; every Err must carry the result of the fit itself (same termination, evaluation count and parameters as the deterministic twin fit); plus a model failure injected at every model call of the statistics stage (transient and persistent). Executed in child processes of the overflow-checked and the release build. distinct = hash(problem, N); every case is non-trivial (it reaches fit_with_statistics)");
    ctx.assume("Ok is not demanded for N > M+P (a singular normal matrix may legitimately give Err); only Ok => identities and (N<=M+P or failed fit or failing model) => Err, never a panic");
    let n = ctx.tier.pick(4800, 240000);
    let wall = ctx.tier.pick(60.0, 1200.0);
    for profile in ["checked", "release"] {
        let exe = exe_for_profile(profile);
        if !std::path::Path::new(&exe).exists() {
            ctx.harness_error(format!("worker binary for profile {profile} missing: {exe}"));
            continue;
        }
        run_in_children(ctx, &exe, profile, "shapes", n, 10.0, wall);
    }
    ctx.extra("profiles", json!(["checked (overflow checks + debug assertions)", "release"]));
}
