//! C15 — model builder accepts exactly valid specifications; errors name a real defect
//!
//! An interpreter executes call programs over the real `SeparableModelBuilder`
//! and, independently, over an executable specification written from the
//! property text (a *set* of defects present in the call sequence).
//! Verdict: Ok <=> set empty, Err(kind) => kind in set.

use crate::arity::*;
use crate::rng::Rng;
use crate::run::*;
use nalgebra::DVector;
use serde_json::json;
use std::collections::BTreeSet;
use std::sync::Arc;
use varpro::prelude::*;

#[derive(Clone, Debug, PartialEq)]
pub enum BCall {
    Function { params: Vec<String>, arity: usize },
    Deriv { name: String, arity: usize },
    Invariant,
    X(usize),
    Guess(usize),
}

#[derive(Clone, Debug)]
pub struct Program {
    pub names: Vec<String>,
    pub calls: Vec<BCall>,
}

fn sv(v: &[&str]) -> Vec<String> {
    v.iter().map(|s| s.to_string()).collect()
}

/// run the program on the real builder and hand back the model if it is accepted
pub fn build_real(p: &Program) -> Result<varpro::model::SeparableModel<f64>, String> {
    let f: SliceFn<f64> = Arc::new(|x: &DVector<f64>, a: &[f64]| x.map(|v| (0.1 * v + 0.01 * a.iter().sum::<f64>()).sin()));
    let mut b = SeparableModelBuilder::<f64>::new(p.names.clone());
    for c in &p.calls {
        b = match c {
            BCall::Function { params, arity } => add_function(b, params.clone(), *arity, f.clone()),
            BCall::Deriv { name, arity } => add_deriv(b, name.clone(), *arity, f.clone()),
            BCall::Invariant => b.invariant_function(|x: &DVector<f64>| x.map(|v| 1.0 + 0.05 * v)),
            BCall::X(n) => b.independent_variable(DVector::from_fn(*n, |i, _| i as f64)),
            BCall::Guess(n) => b.initial_parameters((0..*n).map(|i| 0.5 + i as f64).collect()),
        };
    }
    b.build().map_err(|e| format!("{e:?}"))
}

/// run the program on the real builder; Ok(()) or the error kind (variant name)
pub fn run_real(p: &Program) -> Result<(), String> {
    let f: SliceFn<f64> = Arc::new(|x: &DVector<f64>, a: &[f64]| x.map(|v| v + a.iter().sum::<f64>()));
    let mut b = SeparableModelBuilder::<f64>::new(p.names.clone());
    for c in &p.calls {
        b = match c {
            BCall::Function { params, arity } => add_function(b, params.clone(), *arity, f.clone()),
            BCall::Deriv { name, arity } => add_deriv(b, name.clone(), *arity, f.clone()),
            BCall::Invariant => b.invariant_function(|x: &DVector<f64>| x.clone()),
            BCall::X(n) => b.independent_variable(DVector::from_element(*n, 1.0)),
            BCall::Guess(n) => b.initial_parameters(vec![1.0; *n]),
        };
    }
    match b.build() {
        Ok(_) => Ok(()),
        Err(e) => {
            let d = format!("{e:?}");
            Err(d.split([' ', '{', '(']).next().unwrap_or("").to_string())
        }
    }
}

fn has_dup(v: &[String]) -> bool {
    let mut s = BTreeSet::new();
    !v.iter().all(|x| s.insert(x))
}

/// The executable specification: the set of defects present in the call sequence,
/// written from the property statement (not from the builder's control flow).
pub fn spec_defects(p: &Program) -> BTreeSet<&'static str> {
    let mut d: BTreeSet<&'static str> = BTreeSet::new();
    // model parameter names: non-empty list, unique, comma-free
    if p.names.is_empty() {
        d.insert("EmptyParameters");
    }
    if p.names.iter().any(|n| n.contains(',')) {
        d.insert("CommaInParameterNameNotAllowed");
    }
    if has_dup(&p.names) {
        d.insert("DuplicateParameterNames");
    }
    // group: a parametrised function together with the derivative calls that directly follow it
    struct Group {
        params: Vec<String>,
        arity: usize,
        derivs: Vec<String>,
    }
    let mut open: Option<Group> = None;
    let mut functions = 0usize;
    let mut used: BTreeSet<String> = BTreeSet::new();
    let mut have_x = false;
    let mut have_guess = false;
    fn close(g: Option<Group>, d: &mut BTreeSet<&'static str>) {
        if let Some(g) = g {
            // exactly one partial derivative for each declared parameter
            for prm in &g.params {
                if !g.derivs.contains(prm) {
                    d.insert("MissingDerivative");
                }
            }
            let _ = g.arity;
        }
    }
    for c in &p.calls {
        match c {
            BCall::Function { params, arity } => {
                close(open.take(), &mut d);
                functions += 1;
                if params.is_empty() {
                    d.insert("EmptyParameters");
                }
                if params.iter().any(|n| n.contains(',')) {
                    d.insert("CommaInParameterNameNotAllowed");
                }
                if has_dup(params) {
                    d.insert("DuplicateParameterNames");
                }
                if params.iter().any(|n| !p.names.contains(n)) {
                    d.insert("FunctionParameterNotInModel");
                }
                if *arity != params.len() {
                    d.insert("IncorrectParameterCount");
                }
                for n in params {
                    used.insert(n.clone());
                }
                open = Some(Group { params: params.clone(), arity: *arity, derivs: vec![] });
            }
            BCall::Deriv { name, arity } => match open.as_mut() {
                None => {
                    d.insert("IllegalCallToPartialDeriv");
                }
                Some(g) => {
                    if !g.params.contains(name) {
                        d.insert("InvalidDerivative");
                    } else if g.derivs.contains(name) {
                        d.insert("DuplicateDerivative");
                    }
                    if *arity != g.params.len() || *arity != g.arity {
                        d.insert("IncorrectParameterCount");
                    }
                    g.derivs.push(name.clone());
                }
            },
            BCall::Invariant => {
                close(open.take(), &mut d);
                functions += 1;
            }
            BCall::X(_) => {
                close(open.take(), &mut d);
                have_x = true;
            }
            BCall::Guess(n) => {
                close(open.take(), &mut d);
                have_guess = true;
                if *n != p.names.len() {
                    d.insert("IncorrectParameterCount");
                }
            }
        }
    }
    close(open.take(), &mut d);
    if functions == 0 {
        d.insert("EmptyModel");
    }
    for n in &p.names {
        if !used.contains(n) {
            d.insert("UnusedParameter");
        }
    }
    if !have_x {
        d.insert("MissingX");
    }
    if !have_guess {
        d.insert("MissingInitialParameters");
    }
    d
}

/// returns a description of the disagreement, if any
pub fn judge(p: &Program) -> (Result<(), String>, BTreeSet<&'static str>, Option<String>) {
    let spec = spec_defects(p);
    let real = match guarded(|| run_real(p)) {
        Ok(r) => r,
        Err((loc, msg)) => return (Err("PANIC".into()), spec, Some(format!("builder panicked at {loc}: {msg}"))),
    };
    let verdict = match &real {
        Ok(()) if !spec.is_empty() => Some(format!("build() returned Ok although the specification finds defects {spec:?}")),
        Err(k) if spec.is_empty() => Some(format!("build() returned Err({k}) although the specification finds no defect")),
        Err(k) if !spec.contains(k.as_str()) => Some(format!("build() returned Err({k}) but the defects present in the call sequence are {spec:?}")),
        _ => None,
    };
    (real, spec, verdict)
}

// --------------------------- generator 1: exhaustive -----------------------------

fn name_lists() -> Vec<Vec<String>> {
    vec![sv(&[]), sv(&["a"]), sv(&["a", "b"]), sv(&["b", "a"]), sv(&["a", "a"]), sv(&["a,b"])]
}

fn tokens() -> Vec<BCall> {
    let mut t = Vec::new();
    for params in [sv(&["a"]), sv(&["b"]), sv(&["a", "b"]), sv(&["b", "a"]), sv(&["a", "a"]), sv(&[]), sv(&["z"])] {
        for arity in [1usize, 2] {
            t.push(BCall::Function { params: params.clone(), arity });
        }
    }
    for name in ["a", "b", "z"] {
        for arity in [1usize, 2] {
            t.push(BCall::Deriv { name: name.to_string(), arity });
        }
    }
    t.push(BCall::Invariant);
    t.push(BCall::X(3));
    for n in 0..3 {
        t.push(BCall::Guess(n));
    }
    assert_eq!(t.len(), 25);
    t
}

/// one case = all programs with a fixed name list and a fixed first token (or the empty program)
fn exhaustive_case(case: u64, out: &mut CaseOut, maxlen: usize) {
    let stream = "exhaustive";
    let nl = name_lists();
    let toks = tokens();
    let ni = (case / 26) as usize;
    let first = (case % 26) as usize; // 25 = the empty program
    let names = nl[ni].clone();
    let run_one = |calls: Vec<BCall>, out: &mut CaseOut| {
        let p = Program { names: names.clone(), calls };
        let (real, spec, verdict) = judge(&p);
        out.evals += 1;
        match &real {
            Ok(()) => {
                out.count("accepted");
                out.nontrivial_count += 1;
            }
            Err(k) => {
                out.count(&format!("rejected_{k}"));
                if spec.len() == 1 {
                    out.nontrivial_count += 1;
                }
            }
        }
        if let Some(v) = verdict {
            if out.violations.len() < 5 {
                violation(out, stream, case, v, json!({"names": p.names, "calls": format!("{:?}", p.calls), "specification_defects": format!("{spec:?}")}));
            } else {
                out.count("further_disagreements_not_listed");
            }
        }
        if real.is_ok() && out.samples.is_empty() && p.calls.len() >= 3 {
            out.sample(json!({"accepted_program": {"names": p.names, "calls": format!("{:?}", p.calls)}}));
        }
    };
    if first == 25 {
        run_one(vec![], out);
        return;
    }
    // programs of length 1..=maxlen starting with toks[first]
    for len in 1..=maxlen {
        let rest = len - 1;
        let total = 25usize.pow(rest as u32);
        for mut idx in 0..total {
            let mut calls = Vec::with_capacity(len);
            calls.push(toks[first].clone());
            for _ in 0..rest {
                calls.push(toks[idx % 25].clone());
                idx /= 25;
            }
            run_one(calls, out);
        }
    }
}

// --------------------------- generators 2 and 3 -----------------------------

fn pool_names() -> Vec<String> {
    // names are opaque strings: blanks and letter case are significant, so " alpha" and "alpha" are two
    // different, valid names (only emptiness, commas and duplicates are defects)
    sv(&["alpha", " alpha", "beta", "beta ", "gamma", "Gamma", "delta", "e ps", "zeta", "eta", "theta", "iota", "kappa", "lam", "mu", " "])
}

/// a random valid program: 1..10 model parameters, functions of arity 1..10 over ordered subsets,
/// all derivatives (random order), invariant functions, x and guess at random positions
pub fn random_valid(rng: &mut Rng) -> Program {
    let np = rng.int(1, 10);
    let mut names = pool_names();
    rng.shuffle(&mut names);
    names.truncate(np);
    let mut groups: Vec<Vec<BCall>> = Vec::new();
    let mut covered: BTreeSet<String> = BTreeSet::new();
    let nf = rng.int(1, 4);
    for fi in 0..nf {
        let mut sub = names.clone();
        rng.shuffle(&mut sub);
        let k = rng.int(1, np);
        sub.truncate(k);
        // make sure everything is covered by the last function
        if fi == nf - 1 {
            for n in &names {
                if !covered.contains(n) && !sub.contains(n) {
                    sub.push(n.clone());
                }
            }
        }
        for n in &sub {
            covered.insert(n.clone());
        }
        let mut g = vec![BCall::Function { params: sub.clone(), arity: sub.len() }];
        let mut order = sub.clone();
        rng.shuffle(&mut order);
        for n in order {
            g.push(BCall::Deriv { name: n, arity: sub.len() });
        }
        groups.push(g);
        if rng.chance(0.3) {
            groups.push(vec![BCall::Invariant]);
        }
    }
    groups.push(vec![BCall::X(rng.int(1, 5))]);
    groups.push(vec![BCall::Guess(np)]);
    if rng.chance(0.2) {
        groups.push(vec![BCall::X(rng.int(1, 5))]);
    }
    if rng.chance(0.2) {
        groups.push(vec![BCall::Guess(np)]);
    }
    rng.shuffle(&mut groups);
    Program { names, calls: groups.into_iter().flatten().collect() }
}

fn random_call(rng: &mut Rng, names: &[String]) -> BCall {
    let mut pool = names.to_vec();
    pool.push("zz".into());
    pool.push("a,b".into());
    match rng.below(8) {
        0..=2 => {
            let k = rng.int(0, 4.min(pool.len()));
            let mut sub = pool.clone();
            rng.shuffle(&mut sub);
            sub.truncate(k);
            if rng.chance(0.15) && !sub.is_empty() {
                sub.push(sub[0].clone());
            }
            let arity = if rng.chance(0.8) { sub.len().clamp(1, 10) } else { rng.int(1, 10) };
            BCall::Function { params: sub, arity }
        }
        3 | 4 => BCall::Deriv { name: rng.pick(&pool).clone(), arity: rng.int(1, 4) },
        5 => BCall::Invariant,
        6 => BCall::X(rng.int(0, 4)),
        _ => BCall::Guess(rng.int(0, names.len() + 1)),
    }
}

pub fn mutate(rng: &mut Rng, p: &mut Program) {
    let n = p.calls.len();
    match rng.below(8) {
        0 if n > 0 => {
            p.calls.remove(rng.below(n));
        }
        1 if n > 0 => {
            let i = rng.below(n);
            let c = p.calls[i].clone();
            p.calls.insert(rng.below(n + 1), c);
        }
        2 if n > 1 => {
            let (i, j) = (rng.below(n), rng.below(n));
            p.calls.swap(i, j);
        }
        3 => {
            let c = random_call(rng, &p.names);
            p.calls.insert(rng.below(n + 1), c);
        }
        4 if n > 0 => {
            // rename a parameter somewhere
            let i = rng.below(n);
            match &mut p.calls[i] {
                BCall::Function { params, .. } if !params.is_empty() => {
                    let k = rng.below(params.len());
                    params[k] = if rng.chance(0.5) || p.names.is_empty() { "zz".into() } else { rng.pick(&p.names).clone() };
                }
                BCall::Deriv { name, .. } => *name = if rng.chance(0.5) || p.names.is_empty() { "zz".into() } else { rng.pick(&p.names).clone() },
                _ => {}
            }
        }
        5 if n > 0 => {
            let i = rng.below(n);
            match &mut p.calls[i] {
                BCall::Function { arity, .. } | BCall::Deriv { arity, .. } => *arity = rng.int(1, 10),
                BCall::Guess(k) => *k = rng.int(0, 11),
                _ => {}
            }
        }
        6 => {
            // change the model parameter list
            match rng.below(4) {
                0 if !p.names.is_empty() => {
                    p.names.pop();
                }
                1 => p.names.push(if rng.chance(0.3) {
                    // a long name with commas and multi-byte characters at every alignment
                    format!("{}{}", "a".repeat(rng.below(4)), "τ1,τ2,τ3,τ4,τ5,τ6,τ7,τ8,τ9,τ10,τ11,τ12,τ13,τ14,τ15,τ16")
                } else {
                    "extra".into()
                }),
                2 if !p.names.is_empty() => {
                    let c = p.names[0].clone();
                    p.names.push(c);
                }
                _ => p.names.reverse(),
            }
        }
        _ => {}
    }
}

fn guided_case(rng: &mut Rng, case: u64, out: &mut CaseOut) {
    let stream = "guided";
    let mut p = random_valid(rng);
    let edits = rng.below(4);
    for _ in 0..edits {
        mutate(rng, &mut p);
    }
    let (real, spec, verdict) = judge(&p);
    out.evals += 1;
    out.count(&format!("guided_{}_edits", edits));
    match &real {
        Ok(()) => out.count("accepted"),
        Err(k) => out.count(&format!("rejected_{k}")),
    }
    if real.is_ok() || spec.len() <= 2 {
        out.nontrivial.push(crate::rng::fnv(format!("{:?}", p).as_bytes()));
    }
    if edits == 0 && real.is_err() {
        // a generated valid program must be accepted by both
        out.count("valid_program_rejected");
    }
    if let Some(v) = verdict {
        violation(out, stream, case, v, json!({"names": p.names, "calls": format!("{:?}", p.calls), "specification_defects": format!("{spec:?}")}));
        return;
    }
    // stickiness: once a defect is recorded, valid suffixes cannot turn the result into Ok
    if !spec.is_empty() {
        let mut q = p.clone();
        let tail = random_valid(rng);
        q.calls.extend(tail.calls.into_iter().filter(|c| match c {
            BCall::Function { params, .. } => params.iter().all(|n| q.names.contains(n)),
            BCall::Deriv { .. } => false,
            _ => true,
        }));
        q.calls.push(BCall::X(3));
        q.calls.push(BCall::Guess(q.names.len()));
        // the specification of the extended program decides: defects that later calls can cure
        // (a missing x or guess, an empty model, an unused parameter) may disappear, recorded ones may not
        let (real2, spec2, verdict2) = judge(&q);
        out.evals += 1;
        if real2.is_err() {
            out.count("stickiness_probes_still_rejected");
        }
        if let Some(v) = verdict2 {
            violation(out, stream, case, v, json!({"names": q.names, "calls": format!("{:?}", q.calls), "specification_defects": format!("{spec2:?}")}));
        }
    }
    if case < 3 {
        out.sample(json!({"stream": stream, "names": p.names, "calls": format!("{:?}", p.calls), "edits": edits, "result": format!("{real:?}")}));
    }
}

fn random_case(rng: &mut Rng, case: u64, out: &mut CaseOut) {
    let stream = "random";
    let np = rng.int(0, 5);
    let mut names = pool_names();
    rng.shuffle(&mut names);
    names.truncate(np);
    if rng.chance(0.1) && !names.is_empty() {
        names.push(names[0].clone());
    }
    let len = rng.int(0, 40);
    let calls: Vec<BCall> = (0..len).map(|_| random_call(rng, &names)).collect();
    let p = Program { names, calls };
    let (real, spec, verdict) = judge(&p);
    out.evals += 1;
    match &real {
        Ok(()) => out.count("accepted"),
        Err(k) => out.count(&format!("rejected_{k}")),
    }
    if spec.len() <= 2 {
        out.nontrivial.push(crate::rng::fnv(format!("{:?}", p).as_bytes()));
    }
    if let Some(v) = verdict {
        violation(out, stream, case, v, json!({"names": p.names, "calls": format!("{:?}", p.calls), "specification_defects": format!("{spec:?}")}));
    }
}

pub fn run(ctx: &Ctx) {
    let t = ctx.tier;
    let maxlen = t.pick(4, 5);
    ctx.rule(&format!("exhaustive: every program new(names) + <= {maxlen} further calls + build() over 6 name lists ([], [a], [a,b], [b,a], [a,a], [\"a,b\"]) and 25 call tokens (function with parameter list in {{[a],[b],[a,b],[b,a],[a,a],[],[z]}} x arity {{1,2}}; partial_deriv with name in {{a,b,z}} x arity {{1,2}}; invariant_function; independent_variable; initial_parameters of length 0/1/2) = 6·sum_(l<={maxlen}) 25^l programs; guided: random valid programs (1..10 parameters, arities 1..10, derivatives in random order, calls shuffled group-wise) with 0..3 edits (delete, duplicate, swap, insert, rename, change arity/guess length, change the model parameter list) plus a stickiness probe; random: programs up to length 40. Verdict per program: Ok <=> the specification's defect set is empty, Err(kind) => kind in the set. non-trivial = accepted programs and programs with exactly one (guided/random: at most two) defects; enumerated programs are distinct by construction"));
    ctx.assume("the specification is silent about empty-string names; the generators do not produce them");
    *ctx.exhaustive.lock().unwrap() = Some(true);
    ctx.run_cases("exhaustive", 6 * 26, t.pick(120.0, 1200.0), |_r, c, o| exhaustive_case(c, o, maxlen));
    ctx.run_cases("guided", t.pick(150000, 5000000), t.pick(20.0, 200.0), guided_case);
    ctx.run_cases("random", t.pick(60000, 2000000), t.pick(10.0, 100.0), random_case);
    ctx.extra("exhaustive_bound", json!({"max_calls": maxlen, "name_lists": 6, "tokens": 25}));
}
