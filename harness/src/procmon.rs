//! Process boundary: run batches of cases in child processes, stream per-case
//! events over a pipe, measure the child's CPU time (load independent) and
//! kill it when a case exceeds its CPU budget. Panics are caught inside the
//! child and reported as events; a child that dies by a signal is attributed
//! to the case in flight.

use crate::rng::Rng;
use crate::run::*;
use serde_json::{json, Value};
use std::io::{BufRead, BufReader, Write};
use std::process::{Command, Stdio};
use std::sync::mpsc;
use std::time::{Duration, Instant};

pub fn caseout_to_json(o: &CaseOut) -> Value {
    json!({
        "evals": o.evals,
        "nontrivial": o.nontrivial,
        "nontrivial_count": o.nontrivial_count,
        "violations": o.violations.iter().map(|v| json!({"stream": v.stream, "case": v.case, "what": v.what, "detail": v.detail})).collect::<Vec<_>>(),
        "known": o.known.iter().map(|v| json!({"stream": v.stream, "case": v.case, "what": v.what, "detail": v.detail, "signature": v.signature})).collect::<Vec<_>>(),
        "counters": o.counters,
        "ratios": o.ratios.iter().map(|(k, v)| (k.clone(), json!(if v.is_finite() { *v } else { 1e308 }))).collect::<serde_json::Map<String, Value>>(),
        "sets": o.sets,
        "samples": o.samples,
        "inconclusive": o.inconclusive,
    })
}

pub fn caseout_from_json(j: &Value) -> CaseOut {
    let mut o = CaseOut::default();
    o.evals = j["evals"].as_u64().unwrap_or(0);
    o.nontrivial_count = j["nontrivial_count"].as_u64().unwrap_or(0);
    if let Some(a) = j["nontrivial"].as_array() {
        o.nontrivial = a.iter().filter_map(|x| x.as_u64()).collect();
    }
    if let Some(a) = j["violations"].as_array() {
        for v in a {
            o.violations.push(Violation {
                stream: v["stream"].as_str().unwrap_or("").into(),
                case: v["case"].as_u64().unwrap_or(0),
                what: v["what"].as_str().unwrap_or("").into(),
                detail: v["detail"].clone(),
            });
        }
    }
    if let Some(a) = j["known"].as_array() {
        for v in a {
            o.known.push(KnownHit {
                stream: v["stream"].as_str().unwrap_or("").into(),
                case: v["case"].as_u64().unwrap_or(0),
                what: v["what"].as_str().unwrap_or("").into(),
                detail: v["detail"].clone(),
                signature: v["signature"].as_str().unwrap_or("").into(),
            });
        }
    }
    if let Some(m) = j["counters"].as_object() {
        for (k, v) in m {
            o.counters.insert(k.clone(), v.as_u64().unwrap_or(0));
        }
    }
    if let Some(m) = j["ratios"].as_object() {
        for (k, v) in m {
            o.ratios.insert(k.clone(), v.as_f64().unwrap_or(0.0));
        }
    }
    if let Some(m) = j["sets"].as_object() {
        for (k, v) in m {
            let e = o.sets.entry(k.clone()).or_default();
            if let Some(a) = v.as_array() {
                for s in a {
                    if let Some(s) = s.as_str() {
                        e.insert(s.to_string());
                    }
                }
            }
        }
    }
    if let Some(a) = j["samples"].as_array() {
        o.samples = a.clone();
    }
    if let Some(m) = j["inconclusive"].as_object() {
        for (k, v) in m {
            o.inconclusive.insert(k.clone(), v.as_u64().unwrap_or(0));
        }
    }
    o
}

/// emits `@OP` lines from inside a case (flushed immediately, so that the
/// parent knows which operation was in flight when a case stops responding)
pub struct OpLog {
    pub case: u64,
    pub on: bool,
}
impl OpLog {
    pub fn op(&self, text: &str) {
        if self.on {
            let mut o = std::io::stdout().lock();
            let _ = writeln!(o, "@OP {} {}", self.case, text.replace('\n', " "));
            let _ = o.flush();
        }
    }
}

pub type WorkerCase = dyn Fn(&mut Rng, u64, &mut CaseOut, &OpLog) + Sync;

/// child side: run cases start, start+step, ... < end of `stream`
pub fn worker_loop(prop: &str, stream: &str, seed: u64, start: u64, step: u64, end: u64, f: &WorkerCase) {
    let key = format!("{prop}/{stream}");
    let mut i = start;
    while i < end {
        {
            let mut o = std::io::stdout().lock();
            let _ = writeln!(o, "@BEGIN {i}");
            let _ = o.flush();
        }
        let mut out = CaseOut::default();
        let mut rng = Rng::keyed(seed, &key, i);
        let oplog = OpLog { case: i, on: true };
        if let Err((loc, msg)) = guarded(|| f(&mut rng, i, &mut out, &oplog)) {
            if panic_in_subject(&loc) {
                out.violations.push(Violation {
                    stream: stream.to_string(),
                    case: i,
                    what: format!("panic in the subject at {loc}: {msg}"),
                    detail: json!({"location": loc, "message": msg}),
                });
            } else {
                out.counters.insert("HARNESS_PANIC".into(), 1);
                out.samples.push(json!({"harness_panic": format!("{loc}: {msg}")}));
            }
        }
        {
            let mut o = std::io::stdout().lock();
            let _ = writeln!(o, "@END {i} {}", caseout_to_json(&out));
            let _ = o.flush();
        }
        i += step;
    }
}

fn cpu_seconds(pid: u32) -> Option<f64> {
    let s = std::fs::read_to_string(format!("/proc/{pid}/stat")).ok()?;
    let rest = &s[s.rfind(')')? + 2..];
    let f: Vec<&str> = rest.split_whitespace().collect();
    // after the command name: state is f[0]; utime = field 14 overall = f[11], stime = f[12]
    let ut: f64 = f.get(11)?.parse().ok()?;
    let st: f64 = f.get(12)?.parse().ok()?;
    Some((ut + st) / 100.0)
}

enum Msg {
    Line(String),
    Eof,
}

#[derive(Debug)]
enum BatchEnd {
    Done,
    /// case exceeded the CPU budget and was killed
    Hang { case: u64, last_op: String, cpu: f64 },
    /// child died without finishing the case
    Died { case: Option<u64>, status: String, last_op: String },
    WallTimeout { case: Option<u64> },
}

struct BatchResult {
    end: BatchEnd,
    next_case: u64,
}

#[allow(clippy::too_many_arguments)]
fn run_batch(
    ctx: &Ctx,
    exe: &str,
    prop: &str,
    stream: &str,
    start: u64,
    step: u64,
    end: u64,
    cpu_budget: f64,
    wall_budget: f64,
) -> BatchResult {
    let mut child = match Command::new(exe)
        .args(["worker", prop, stream, ctx.tier.name(), &ctx.seed.to_string(), &start.to_string(), &step.to_string(), &end.to_string()])
        .env("RAYON_NUM_THREADS", "2")
        .stdout(Stdio::piped())
        .stderr(Stdio::null())
        .spawn()
    {
        Ok(c) => c,
        Err(e) => {
            ctx.harness_error(format!("cannot spawn worker {exe}: {e}"));
            return BatchResult { end: BatchEnd::Done, next_case: end };
        }
    };
    let pid = child.id();
    let stdout = child.stdout.take().unwrap();
    let (tx, rx) = mpsc::channel();
    let reader = std::thread::spawn(move || {
        let r = BufReader::new(stdout);
        for line in r.lines() {
            match line {
                Ok(l) => {
                    if tx.send(Msg::Line(l)).is_err() {
                        return;
                    }
                }
                Err(_) => break,
            }
        }
        let _ = tx.send(Msg::Eof);
    });
    let mut current: Option<u64> = None;
    let mut cpu_at_begin = 0.0;
    let mut last_op = String::new();
    let mut next_case = start;
    let t0 = Instant::now();
    let result = loop {
        match rx.recv_timeout(Duration::from_millis(50)) {
            Ok(Msg::Line(l)) => {
                if let Some(rest) = l.strip_prefix("@BEGIN ") {
                    current = rest.trim().parse().ok();
                    cpu_at_begin = cpu_seconds(pid).unwrap_or(cpu_at_begin);
                    last_op.clear();
                } else if let Some(rest) = l.strip_prefix("@OP ") {
                    last_op = rest.to_string();
                } else if let Some(rest) = l.strip_prefix("@END ") {
                    let mut it = rest.splitn(2, ' ');
                    let k: u64 = it.next().and_then(|s| s.parse().ok()).unwrap_or(0);
                    if let Some(js) = it.next() {
                        if let Ok(j) = serde_json::from_str::<Value>(js) {
                            let o = caseout_from_json(&j);
                            if o.counters.contains_key("HARNESS_PANIC") {
                                ctx.harness_error(format!("harness panic in worker {stream}#{k}: {:?}", o.samples));
                            }
                            ctx.merge_public(o);
                        }
                    }
                    current = None;
                    next_case = k + step;
                }
            }
            Ok(Msg::Eof) => {
                let status = child.wait().map(|s| format!("{s}")).unwrap_or_default();
                if current.is_some() || next_case < end {
                    let ok_exit = status.contains("exit status: 0");
                    if current.is_none() && ok_exit {
                        break BatchEnd::Done;
                    }
                    let c = current;
                    if let Some(c) = c {
                        next_case = c + step;
                    }
                    break BatchEnd::Died { case: c, status, last_op: last_op.clone() };
                }
                break BatchEnd::Done;
            }
            Err(mpsc::RecvTimeoutError::Timeout) => {
                if let (Some(c), Some(cpu)) = (current, cpu_seconds(pid)) {
                    if cpu - cpu_at_begin > cpu_budget {
                        let _ = child.kill();
                        let _ = child.wait();
                        next_case = c + step;
                        break BatchEnd::Hang { case: c, last_op: last_op.clone(), cpu: cpu - cpu_at_begin };
                    }
                }
                if t0.elapsed().as_secs_f64() > wall_budget {
                    let _ = child.kill();
                    let _ = child.wait();
                    let c = current;
                    if let Some(c) = c {
                        next_case = c + step;
                    }
                    break BatchEnd::WallTimeout { case: c };
                }
            }
            Err(mpsc::RecvTimeoutError::Disconnected) => {
                let _ = child.wait();
                break BatchEnd::Done;
            }
        }
    };
    drop(rx);
    let _ = reader.join();
    BatchResult { end: result, next_case }
}

/// Parent side: run cases 0..n of `stream` in `nworkers` child processes of
/// binary `exe`. A case that exceeds `cpu_budget` CPU-seconds is killed and
/// replayed in isolation with 3× the budget: exceeding it again is a
/// violation ("did not return"), otherwise the case is inconclusive.
pub fn run_in_children(ctx: &Ctx, exe: &str, profile: &str, stream: &str, n: u64, cpu_budget: f64, wall_budget: f64) {
    let prop = ctx.prop.clone();
    if let Some((rs, rc)) = &ctx.replay {
        if rs != stream {
            return;
        }
        println!("replaying {} stream={} case={} in a child process ({profile})", prop, stream, rc);
        let r = run_batch(ctx, exe, &prop, stream, *rc, 1, *rc + 1, cpu_budget * 3.0, wall_budget);
        report_end(ctx, stream, profile, r.end, cpu_budget * 3.0, true, exe, wall_budget);
        return;
    }
    let t0 = Instant::now();
    let nworkers = ctx.threads.max(1).min(n.max(1) as usize) as u64;
    std::thread::scope(|s| {
        for w in 0..nworkers {
            let prop = prop.clone();
            s.spawn(move || {
                let mut start = w;
                while start < n {
                    let remaining = wall_budget - t0.elapsed().as_secs_f64();
                    if remaining <= 0.0 {
                        break;
                    }
                    let r = run_batch(ctx, exe, &prop, stream, start, nworkers, n, cpu_budget, remaining);
                    start = r.next_case;
                    report_end(ctx, stream, profile, r.end, cpu_budget, false, exe, wall_budget);
                }
            });
        }
    });
    ctx.streams.lock().unwrap().push(json!({"stream": stream, "profile": profile, "planned": n, "workers": nworkers, "wall_s": t0.elapsed().as_secs_f64()}));
}

#[allow(clippy::too_many_arguments)]
fn report_end(ctx: &Ctx, stream: &str, profile: &str, end: BatchEnd, cpu_budget: f64, isolated: bool, exe: &str, wall_budget: f64) {
    let mut out = CaseOut::default();
    match end {
        BatchEnd::Done => {}
        BatchEnd::Hang { case, last_op, cpu } => {
            if isolated {
                out.evals += 1;
                violation(&mut out, stream, case, format!("did not return: case consumed {cpu:.1} CPU-seconds (> {cpu_budget:.0}) in isolation ({profile} build); last operation: {last_op}"),
                    json!({"profile": profile, "last_op": last_op, "cpu_seconds": cpu}));
            } else {
                // isolated replay with 3x the budget decides
                out.count("cpu_budget_exceeded_first_pass");
                ctx.merge_public(out);
                let r = run_batch(ctx, exe, &ctx.prop, stream, case, 1, case + 1, cpu_budget * 3.0, wall_budget.max(cpu_budget * 6.0));
                match r.end {
                    BatchEnd::Done => {
                        let mut o = CaseOut::default();
                        o.inconcl("CPU budget exceeded in the batch but the isolated replay finished");
                        ctx.merge_public(o);
                    }
                    other => report_end(ctx, stream, profile, other, cpu_budget * 3.0, true, exe, wall_budget),
                }
                return;
            }
        }
        BatchEnd::Died { case, status, last_op } => {
            out.evals += 1;
            match case {
                Some(c) => violation(&mut out, stream, c, format!("worker process died ({status}) while executing the case ({profile} build); last operation: {last_op}"),
                    json!({"profile": profile, "status": status, "last_op": last_op})),
                None => ctx.harness_error(format!("worker for {stream} exited abnormally between cases: {status}")),
            }
        }
        BatchEnd::WallTimeout { case } => {
            out.inconcl("outer wall-clock watchdog fired");
            let _ = case;
        }
    }
    ctx.merge_public(out);
}

pub fn exe_for_profile(profile: &str) -> String {
    let me = std::env::current_exe().unwrap();
    let s = me.to_string_lossy().to_string();
    for p in ["/checked/", "/release/"] {
        if s.contains(p) {
            return s.replace(p, &format!("/{profile}/"));
        }
    }
    s
}
