//! Problem specifications (data that fully describes one fitting problem and
//! can be written to a replay file), construction of the real varpro problem
//! in any of its four flavours, and the ProblemSpy that sits between the
//! optimizer and the problem.

use crate::la::Mat;
use crate::sc::{dmat, dvec, Sc};
use crate::spy::{Spy, SpyCtl};
use crate::zoo::*;
use levenberg_marquardt::{LeastSquaresProblem, LevenbergMarquardt, MinimizationReport};
use nalgebra::storage::Owned;
use nalgebra::{DMatrix, DVector, Dyn, Matrix, Vector};
use serde_json::{json, Value};
use std::cell::RefCell;
use std::sync::Arc;
use varpro::prelude::*;
use varpro::solvers::levmar::{FitResult, LevMarProblem, LevMarProblemBuilder, LevMarSolver};
use varpro::statistics::FitStatistics;

#[derive(Clone, Debug)]
pub enum ModelKind {
    Built(ModelSpec),
    Hand(ModelSpec),
    /// hand-written, rejects non-finite parameter vectors keeping the old ones
    HandRejecting(ModelSpec),
    Designed(DesignedSpec),
    OneCol { n: usize, row: usize },
    Table { n: usize, m: usize, p: usize, base: Mat, slope: Vec<Mat> },
    RowScaled(Box<ModelKind>, Vec<f64>),
    /// values of the inner kind, derivative k replaced by the k-th table
    BadDeriv(Box<ModelKind>, Vec<Mat>),
    /// the inner kind behind a wrapper that evaluates only after set_params has been called once
    Lazy(Box<ModelKind>),
    /// builder-made model over position-coded closures of arity 1..10 (the C16 family): functions
    /// over arbitrary ordered subsets of the model parameters, "derivatives" that are codes as well -
    /// everything that only needs the model's own Phi and D_k can be judged on it
    Coded(crate::coded::CodedSpec),
}

impl ModelKind {
    pub fn spec(&self) -> Option<&ModelSpec> {
        match self {
            ModelKind::Built(s) | ModelKind::Hand(s) | ModelKind::HandRejecting(s) => Some(s),
            ModelKind::RowScaled(k, _) | ModelKind::BadDeriv(k, _) => k.spec(),
            ModelKind::Lazy(k) => k.spec(),
            ModelKind::Coded(_) => None,
            _ => None,
        }
    }
    pub fn n(&self) -> usize {
        match self {
            ModelKind::Built(s) | ModelKind::Hand(s) | ModelKind::HandRejecting(s) => s.n(),
            ModelKind::Designed(d) => d.n(),
            ModelKind::OneCol { n, .. } => *n,
            ModelKind::Table { n, .. } => *n,
            ModelKind::RowScaled(k, _) | ModelKind::BadDeriv(k, _) => k.n(),
            ModelKind::Lazy(k) => k.n(),
            ModelKind::Coded(c) => c.x.len(),
        }
    }
    pub fn m(&self) -> usize {
        match self {
            ModelKind::Built(s) | ModelKind::Hand(s) | ModelKind::HandRejecting(s) => s.m(),
            ModelKind::Designed(d) => d.m(),
            ModelKind::OneCol { .. } => 1,
            ModelKind::Table { m, .. } => *m,
            ModelKind::RowScaled(k, _) | ModelKind::BadDeriv(k, _) => k.m(),
            ModelKind::Lazy(k) => k.m(),
            ModelKind::Coded(c) => c.funcs.len(),
        }
    }
    pub fn np(&self) -> usize {
        match self {
            ModelKind::Built(s) | ModelKind::Hand(s) | ModelKind::HandRejecting(s) => s.np,
            ModelKind::Designed(d) => d.np(),
            ModelKind::OneCol { .. } => 1,
            ModelKind::Table { p, .. } => *p,
            ModelKind::RowScaled(k, _) | ModelKind::BadDeriv(k, _) => k.np(),
            ModelKind::Lazy(k) => k.np(),
            ModelKind::Coded(c) => c.names.len(),
        }
    }
    pub fn instantiate<T: Sc>(&self, alpha0: &[f64]) -> AnyModel<T> {
        match self {
            ModelKind::Built(s) => AnyModel::Built(build_model::<T>(s, alpha0)),
            ModelKind::Hand(s) => AnyModel::Hand(HandModel::new(s, alpha0)),
            ModelKind::HandRejecting(s) => {
                let mut h = HandModel::new(s, alpha0);
                h.reject_nan = true;
                AnyModel::Hand(h)
            }
            ModelKind::Designed(d) => AnyModel::Designed(DesignedModel {
                spec: d.clone(),
                params: dvec::<T>(alpha0),
            }),
            ModelKind::OneCol { n, row } => AnyModel::OneCol(OneColModel {
                n: *n,
                row: *row,
                params: dvec::<T>(alpha0),
            }),
            ModelKind::Table { n, m, p, base, slope } => AnyModel::Table(TableModel {
                n: *n,
                m: *m,
                p: *p,
                base: dmat::<T>(base),
                slope: slope.iter().map(|s| dmat::<T>(s)).collect(),
                params: dvec::<T>(alpha0),
            }),
            ModelKind::RowScaled(k, w) => {
                AnyModel::RowScaled(Box::new(k.instantiate::<T>(alpha0)), dvec::<T>(w))
            }
            ModelKind::BadDeriv(k, d) => AnyModel::BadDeriv(Box::new(k.instantiate::<T>(alpha0)), d.iter().map(|m| dmat::<T>(m)).collect()),
            ModelKind::Lazy(k) => AnyModel::Lazy(Box::new(k.instantiate::<T>(alpha0)), std::sync::atomic::AtomicBool::new(false)),
            ModelKind::Coded(c) => AnyModel::Built(crate::coded::build_coded::<T>(c, alpha0, &crate::coded::Misbehave::new()).expect("generated coded specification is valid")),
        }
    }
    /// The oracle's Φ(α) (evaluated in T, widened) — independent of varpro's routing.
    pub fn phi64<T: Sc>(&self, alpha: &[f64]) -> Mat {
        match self {
            ModelKind::Built(s) | ModelKind::Hand(s) | ModelKind::HandRejecting(s) => s.phi64::<T>(alpha),
            ModelKind::Designed(d) => {
                let a: Vec<f64> = alpha.iter().map(|v| crate::sc::rt::<T>(*v)).collect();
                let p = d.phi(&a, None);
                Mat::from_fn(p.r, p.c, |i, j| crate::sc::rt::<T>(p.at(i, j)))
            }
            ModelKind::OneCol { n, row } => {
                let mut m = Mat::zeros(*n, 1);
                m.set(*row, 0, crate::sc::rt::<T>(alpha[0]));
                m
            }
            ModelKind::Table { base, slope, p, .. } => {
                let tm: TableModel<T> = TableModel {
                    n: base.r,
                    m: base.c,
                    p: *p,
                    base: dmat::<T>(base),
                    slope: slope.iter().map(|s| dmat::<T>(s)).collect(),
                    params: dvec::<T>(alpha),
                };
                crate::sc::widen(&tm.phi_at(&tm.params))
            }
            ModelKind::BadDeriv(k, _) => k.phi64::<T>(alpha),
            ModelKind::Lazy(k) => k.phi64::<T>(alpha),
            ModelKind::Coded(c) => {
                let a: Vec<T> = alpha.iter().map(|v| T::of(*v)).collect();
                Mat::from_fn(c.x.len(), c.funcs.len(), |i, j| crate::coded::code_value::<T>(j, T::of(c.x[i]), &crate::coded::route::<T>(c, j, &a)).w())
            }
            ModelKind::RowScaled(k, w) => {
                // rows scaled in T, as the wrapped model does
                let inner = k.phi64::<T>(alpha);
                Mat::from_fn(inner.r, inner.c, |i, j| {
                    (T::of(w[i]) * T::of(inner.at(i, j))).w()
                })
            }
        }
    }
    pub fn dphi64<T: Sc>(&self, alpha: &[f64], k: usize) -> Mat {
        match self {
            ModelKind::Built(s) | ModelKind::Hand(s) | ModelKind::HandRejecting(s) => s.dphi64::<T>(alpha, k),
            ModelKind::Designed(d) => {
                let a: Vec<f64> = alpha.iter().map(|v| crate::sc::rt::<T>(*v)).collect();
                let p = d.phi(&a, Some(k));
                Mat::from_fn(p.r, p.c, |i, j| crate::sc::rt::<T>(p.at(i, j)))
            }
            ModelKind::OneCol { n, row } => {
                let mut m = Mat::zeros(*n, 1);
                m.set(*row, 0, 1.0);
                m
            }
            ModelKind::Table { slope, .. } => {
                let s = &slope[k];
                Mat::from_fn(s.r, s.c, |i, j| crate::sc::rt::<T>(s.at(i, j)))
            }
            ModelKind::BadDeriv(_, d) => Mat::from_fn(d[k].r, d[k].c, |i, j| crate::sc::rt::<T>(d[k].at(i, j))),
            ModelKind::Lazy(kk) => kk.dphi64::<T>(alpha, k),
            ModelKind::Coded(c) => {
                let a: Vec<T> = alpha.iter().map(|v| T::of(*v)).collect();
                Mat::from_fn(c.x.len(), c.funcs.len(), |i, j| match c.funcs[j].params.iter().position(|nm| *nm == c.names[k]) {
                    Some(q) => crate::coded::code_deriv::<T>(j, q, T::of(c.x[i]), &crate::coded::route::<T>(c, j, &a)).w(),
                    None => 0.0,
                })
            }
            ModelKind::RowScaled(kk, w) => {
                let inner = kk.dphi64::<T>(alpha, k);
                Mat::from_fn(inner.r, inner.c, |i, j| {
                    (T::of(w[i]) * T::of(inner.at(i, j))).w()
                })
            }
        }
    }
    pub fn to_json(&self) -> Value {
        match self {
            ModelKind::Built(s) => json!({"built": s.to_json()}),
            ModelKind::Hand(s) => json!({"hand": s.to_json()}),
            ModelKind::HandRejecting(s) => json!({"hand_rejecting": s.to_json()}),
            ModelKind::Designed(d) => d.to_json(),
            ModelKind::OneCol { n, row } => json!({"onecol": {"n": n, "row": row}}),
            ModelKind::Table { n, m, p, base, slope } => json!({"table": {"n": n, "m": m, "p": p,
                "base": fmt_vec(&base.d), "slope": slope.iter().map(|s| fmt_vec(&s.d)).collect::<Vec<_>>()}}),
            ModelKind::RowScaled(k, w) => json!({"rowscaled": {"inner": k.to_json(), "w": fmt_vec(w)}}),
            ModelKind::Lazy(k) => json!({"lazily_primed": k.to_json()}),
            ModelKind::Coded(c) => json!({"coded": {"names": c.names, "functions": c.funcs.iter().map(|f| json!({"params": f.params, "derivatives_supplied_in_order": f.deriv_order})).collect::<Vec<_>>(), "x": c.x}}),
            ModelKind::BadDeriv(k, d) => json!({"bad_derivatives": {"inner": k.to_json(), "tables": d.iter().map(|m| fmt_vec(&m.d)).collect::<Vec<_>>()}}),
        }
    }
}

/// JSON cannot carry NaN/∞: write floats as strings with full precision when non-finite
pub fn fmt_f(v: f64) -> Value {
    if v.is_finite() {
        json!(v)
    } else {
        json!(format!("{v}"))
    }
}
pub fn fmt_vec(v: &[f64]) -> Value {
    Value::Array(v.iter().map(|x| fmt_f(*x)).collect())
}

#[derive(Clone, Debug)]
pub struct ProblemSpec {
    pub model: ModelKind,
    pub alpha0: Vec<f64>,
    /// N×S observations
    pub y: Mat,
    pub w: Option<Vec<f64>>,
    pub eps: Option<f64>,
    pub mrhs: bool,
    pub par: bool,
}

impl ProblemSpec {
    pub fn to_json(&self) -> Value {
        json!({"model": self.model.to_json(), "alpha0": fmt_vec(&self.alpha0),
               "y": {"rows": self.y.r, "cols": self.y.c, "data": fmt_vec(&self.y.d)},
               "w": self.w.as_ref().map(|w| fmt_vec(w)), "eps": self.eps.map(fmt_f),
               "mrhs": self.mrhs, "par": self.par})
    }
    pub fn hash(&self) -> u64 {
        crate::rng::fnv(self.to_json().to_string().as_bytes())
    }
    /// inverse of `to_json` for zoo models with finite data (used for committed witnesses)
    pub fn from_json(v: &Value) -> Option<ProblemSpec> {
        let m = &v["model"];
        let model = if let Some(b) = m.get("built") {
            ModelKind::Built(ModelSpec::from_json(b)?)
        } else if let Some(b) = m.get("hand") {
            ModelKind::Hand(ModelSpec::from_json(b)?)
        } else {
            return None;
        };
        let fl = |a: &Value| -> Option<Vec<f64>> { a.as_array()?.iter().map(|x| x.as_f64()).collect() };
        let y = &v["y"];
        Some(ProblemSpec {
            model,
            alpha0: fl(&v["alpha0"])?,
            y: Mat::from_cols(y["rows"].as_u64()? as usize, y["cols"].as_u64()? as usize, fl(&y["data"])?),
            w: if v["w"].is_null() { None } else { Some(fl(&v["w"])?) },
            eps: v["eps"].as_f64(),
            mrhs: v["mrhs"].as_bool()?,
            par: v["par"].as_bool()?,
        })
    }
    pub fn s(&self) -> usize {
        self.y.c
    }
    /// weights as the oracle sees them (rounded through T), all ones if absent
    pub fn w64<T: Sc>(&self) -> Vec<f64> {
        match &self.w {
            Some(w) => w.iter().map(|v| crate::sc::rt::<T>(*v)).collect(),
            None => vec![1.0; self.y.r],
        }
    }
    pub fn y64<T: Sc>(&self) -> Mat {
        Mat::from_fn(self.y.r, self.y.c, |i, j| crate::sc::rt::<T>(self.y.at(i, j)))
    }
}

pub type P<T, const M: bool, const PAR: bool> = LevMarProblem<Spy<T>, M, PAR>;

/// a problem over varpro's own builder-made model, without the forwarding wrapper ("raw")
pub type R<T, const M: bool, const PAR: bool> = LevMarProblem<varpro::model::SeparableModel<T>, M, PAR>;

pub enum AnyProblem<T: Sc> {
    SS(P<T, false, false>),
    SP(P<T, false, true>),
    MS(P<T, true, false>),
    MP(P<T, true, true>),
    /// the same four flavours over the builder-made model itself: the wrapper forwards the required
    /// trait methods only, so whatever `SeparableModel` specialises beyond them is reachable only here
    RSS(R<T, false, false>),
    RSP(R<T, false, true>),
    RMS(R<T, true, false>),
    RMP(R<T, true, true>),
}

/// the builder's error type cannot be named from outside the crate; its Debug form carries the variant
pub type BuildErr = String;

/// build the real problem through the public builders; call order is fixed
/// here (C18 varies it separately)
pub fn build_problem<T: Sc>(spec: &ProblemSpec, ctl: &Arc<SpyCtl>) -> Result<AnyProblem<T>, BuildErr> {
    let model = Spy::new(spec.model.instantiate::<T>(&spec.alpha0), ctl.clone());
    build_problem_with(spec, model)
}

/// builder-made models: the problem is built over the `SeparableModel` itself (no wrapper, hence no
/// fault injection and no call log)
pub fn build_problem_raw<T: Sc>(spec: &ProblemSpec) -> Result<AnyProblem<T>, BuildErr> {
    let ModelKind::Built(ms) = &spec.model else { panic!("raw problems need a builder-made model") };
    build_problem_over(spec, build_model::<T>(ms, &spec.alpha0), true)
}

/// raw for every second builder-made specification, wrapped otherwise: for streams that need neither
/// faults nor the call log
pub fn build_problem_auto<T: Sc>(spec: &ProblemSpec) -> Result<AnyProblem<T>, BuildErr> {
    if matches!(spec.model, ModelKind::Built(_)) && spec.hash() % 2 == 0 {
        build_problem_raw(spec)
    } else {
        build_problem(spec, &SpyCtl::new())
    }
}

pub fn build_problem_with<T: Sc>(spec: &ProblemSpec, model: Spy<T>) -> Result<AnyProblem<T>, BuildErr> {
    build_problem_over(spec, model, false)
}

trait IntoAny<T: Sc> {
    fn into_any(self, raw: bool) -> AnyProblem<T>;
}
macro_rules! into_any {
    ($m:literal, $par:literal, $spied:ident, $raw:ident) => {
        impl<T: Sc> IntoAny<T> for P<T, $m, $par> {
            fn into_any(self, _raw: bool) -> AnyProblem<T> {
                AnyProblem::$spied(self)
            }
        }
        impl<T: Sc> IntoAny<T> for R<T, $m, $par> {
            fn into_any(self, _raw: bool) -> AnyProblem<T> {
                AnyProblem::$raw(self)
            }
        }
    };
}
into_any!(false, false, SS, RSS);
into_any!(false, true, SP, RSP);
into_any!(true, false, MS, RMS);
into_any!(true, true, MP, RMP);

fn build_problem_over<T: Sc, M>(spec: &ProblemSpec, model: M, raw: bool) -> Result<AnyProblem<T>, BuildErr>
where
    M: SeparableNonlinearModel<ScalarType = T> + Send + Sync,
    M::Error: Send,
    LevMarProblem<M, false, false>: IntoAny<T>,
    LevMarProblem<M, false, true>: IntoAny<T>,
    LevMarProblem<M, true, false>: IntoAny<T>,
    LevMarProblem<M, true, true>: IntoAny<T>,
{
    let ymat: DMatrix<T> = dmat::<T>(&spec.y);
    // the order of the builder calls must not matter (C18): every problem of the harness is built
    // with a call order derived from its own content, so that all monitors see all orders
    let perms: [[u8; 3]; 6] = [[0, 1, 2], [0, 2, 1], [1, 0, 2], [1, 2, 0], [2, 0, 1], [2, 1, 0]];
    let order = perms[(crate::rng::hash_u64s([spec.y.d.len() as u64, spec.alpha0.iter().fold(0u64, |h, a| h ^ a.to_bits().rotate_left(7)), spec.y.d.iter().take(3).fold(0u64, |h, a| h ^ a.to_bits())]) % 6) as usize];
    macro_rules! finish {
        ($b:expr, $variant:ident, $obs:expr) => {{
            let mut b = $b;
            for step in order {
                b = match step {
                    0 => b.observations($obs),
                    1 => match &spec.w {
                        Some(w) => b.weights(dvec::<T>(w)),
                        None => b,
                    },
                    _ => match spec.eps {
                        Some(e) => b.epsilon(T::of(e)),
                        None => b,
                    },
                };
            }
            let _ = stringify!($variant);
            b.build().map(|p| p.into_any(raw)).map_err(|e| format!("{e:?}"))
        }};
    }
    match (spec.mrhs, spec.par) {
        (false, false) => {
            assert_eq!(spec.y.c, 1);
            finish!(LevMarProblemBuilder::new(model), SS, dvec::<T>(spec.y.col(0)))
        }
        (false, true) => {
            assert_eq!(spec.y.c, 1);
            finish!(LevMarProblemBuilder::new_parallel(model), SP, dvec::<T>(spec.y.col(0)))
        }
        (true, false) => finish!(LevMarProblemBuilder::mrhs(model), MS, ymat.clone()),
        (true, true) => finish!(LevMarProblemBuilder::mrhs_parallel(model), MP, ymat.clone()),
    }
}

macro_rules! each {
    ($self:expr, $p:ident => $e:expr) => {
        match $self {
            AnyProblem::SS($p) => $e,
            AnyProblem::SP($p) => $e,
            AnyProblem::MS($p) => $e,
            AnyProblem::MP($p) => $e,
            AnyProblem::RSS($p) => $e,
            AnyProblem::RSP($p) => $e,
            AnyProblem::RMS($p) => $e,
            AnyProblem::RMP($p) => $e,
        }
    };
}

impl<T: Sc> AnyProblem<T> {
    pub fn set_params(&mut self, a: &DVector<T>) {
        each!(self, p => p.set_params(a))
    }
    pub fn params(&self) -> DVector<T> {
        each!(self, p => p.params())
    }
    pub fn residuals(&self) -> Option<DVector<T>> {
        each!(self, p => p.residuals())
    }
    pub fn jacobian(&self) -> Option<DMatrix<T>> {
        each!(self, p => p.jacobian())
    }
    pub fn coeffs(&self) -> Option<DMatrix<T>> {
        match self {
            AnyProblem::SS(p) => p.linear_coefficients().map(|c| DMatrix::from_iterator(c.nrows(), 1, c.iter().cloned())),
            AnyProblem::SP(p) => p.linear_coefficients().map(|c| DMatrix::from_iterator(c.nrows(), 1, c.iter().cloned())),
            AnyProblem::MS(p) => p.linear_coefficients().map(|c| c.into_owned()),
            AnyProblem::MP(p) => p.linear_coefficients().map(|c| c.into_owned()),
            AnyProblem::RSS(p) => p.linear_coefficients().map(|c| DMatrix::from_iterator(c.nrows(), 1, c.iter().cloned())),
            AnyProblem::RSP(p) => p.linear_coefficients().map(|c| DMatrix::from_iterator(c.nrows(), 1, c.iter().cloned())),
            AnyProblem::RMS(p) => p.linear_coefficients().map(|c| c.into_owned()),
            AnyProblem::RMP(p) => p.linear_coefficients().map(|c| c.into_owned()),
        }
    }
    pub fn weighted_data(&self) -> DMatrix<T> {
        match self {
            AnyProblem::SS(p) => {
                let d = p.weighted_data();
                DMatrix::from_iterator(d.nrows(), 1, d.iter().cloned())
            }
            AnyProblem::SP(p) => {
                let d = p.weighted_data();
                DMatrix::from_iterator(d.nrows(), 1, d.iter().cloned())
            }
            AnyProblem::MS(p) => p.weighted_data().into_owned(),
            AnyProblem::MP(p) => p.weighted_data().into_owned(),
            AnyProblem::RSS(p) => {
                let d = p.weighted_data();
                DMatrix::from_iterator(d.nrows(), 1, d.iter().cloned())
            }
            AnyProblem::RSP(p) => {
                let d = p.weighted_data();
                DMatrix::from_iterator(d.nrows(), 1, d.iter().cloned())
            }
            AnyProblem::RMS(p) => p.weighted_data().into_owned(),
            AnyProblem::RMP(p) => p.weighted_data().into_owned(),
        }
    }
    pub fn is_raw(&self) -> bool {
        matches!(self, AnyProblem::RSS(_) | AnyProblem::RSP(_) | AnyProblem::RMS(_) | AnyProblem::RMP(_))
    }
    /// the wrapper of a wrapped problem (raw problems have none)
    pub fn model(&self) -> &Spy<T> {
        match self {
            AnyProblem::SS(p) => p.model(),
            AnyProblem::SP(p) => p.model(),
            AnyProblem::MS(p) => p.model(),
            AnyProblem::MP(p) => p.model(),
            _ => panic!("a raw problem has no model wrapper"),
        }
    }
    pub fn model_kind(&self) -> &'static str {
        if self.is_raw() {
            "built (no wrapper)"
        } else {
            self.model().inner.kind()
        }
    }
    /// the model's own eval() at the parameters in effect
    pub fn model_eval(&self) -> Option<DMatrix<T>> {
        match self {
            AnyProblem::SS(p) => p.model().inner.eval().ok(),
            AnyProblem::SP(p) => p.model().inner.eval().ok(),
            AnyProblem::MS(p) => p.model().inner.eval().ok(),
            AnyProblem::MP(p) => p.model().inner.eval().ok(),
            AnyProblem::RSS(p) => p.model().eval().ok(),
            AnyProblem::RSP(p) => p.model().eval().ok(),
            AnyProblem::RMS(p) => p.model().eval().ok(),
            AnyProblem::RMP(p) => p.model().eval().ok(),
        }
    }
    pub fn is_par(&self) -> bool {
        matches!(self, AnyProblem::SP(_) | AnyProblem::MP(_) | AnyProblem::RSP(_) | AnyProblem::RMP(_))
    }
    pub fn is_mrhs(&self) -> bool {
        matches!(self, AnyProblem::MS(_) | AnyProblem::MP(_) | AnyProblem::RMS(_) | AnyProblem::RMP(_))
    }
    pub fn into_sequential(self) -> AnyProblem<T> {
        match self {
            AnyProblem::SS(p) => AnyProblem::SS(p.into_sequential()),
            AnyProblem::SP(p) => AnyProblem::SS(p.into_sequential()),
            AnyProblem::MS(p) => AnyProblem::MS(p.into_sequential()),
            AnyProblem::MP(p) => AnyProblem::MS(p.into_sequential()),
            AnyProblem::RSS(p) => AnyProblem::RSS(p.into_sequential()),
            AnyProblem::RSP(p) => AnyProblem::RSS(p.into_sequential()),
            AnyProblem::RMS(p) => AnyProblem::RMS(p.into_sequential()),
            AnyProblem::RMP(p) => AnyProblem::RMS(p.into_sequential()),
        }
    }
    /// W·Φ through varpro's own public `Weights` multiplication and the model's
    /// own `eval` — bit-identical to the matrix `set_params` decomposes.
    pub fn weighted_phi(&self) -> Option<DMatrix<T>> {
        let phi = self.model_eval()?;
        Some(each!(self, p => p.weights() * phi))
    }
    /// the real `LevMarSolver::fit`
    pub fn fit(self, lm: &LevenbergMarquardt<T>) -> AnyFit<T> {
        fn wrap<F>(r: Result<F, F>) -> (bool, F) {
            match r {
                Ok(f) => (true, f),
                Err(f) => (false, f),
            }
        }
        match self {
            AnyProblem::SS(p) => AnyFit::from_s(LevMarSolver::with_solver(*lm).fit(p)),
            AnyProblem::SP(p) => AnyFit::from_s(LevMarSolver::with_solver(*lm).fit(p)),
            AnyProblem::MS(p) => AnyFit::from_m(LevMarSolver::with_solver(*lm).fit(p)),
            AnyProblem::MP(p) => AnyFit::from_m(LevMarSolver::with_solver(*lm).fit(p)),
            AnyProblem::RSS(p) => {
                let (ok, fit) = wrap(LevMarSolver::with_solver(*lm).fit(p));
                AnyFit::RS { ok, fit }
            }
            AnyProblem::RSP(p) => {
                let (ok, fit) = wrap(LevMarSolver::with_solver(*lm).fit(p));
                AnyFit::RS { ok, fit }
            }
            AnyProblem::RMS(p) => {
                let (ok, fit) = wrap(LevMarSolver::with_solver(*lm).fit(p));
                AnyFit::RM { ok, fit }
            }
            AnyProblem::RMP(p) => {
                let (ok, fit) = wrap(LevMarSolver::with_solver(*lm).fit(p));
                AnyFit::RM { ok, fit }
            }
        }
    }
    /// the real `LevMarSolver::fit_with_statistics` (single right-hand side only)
    pub fn fit_with_statistics(self, lm: &LevenbergMarquardt<T>) -> Result<(AnyFit<T>, FitStatistics<Spy<T>>), AnyFit<T>> {
        let r = match self {
            AnyProblem::SS(p) => LevMarSolver::with_solver(*lm).fit_with_statistics(p),
            AnyProblem::SP(p) => LevMarSolver::with_solver(*lm).fit_with_statistics(p),
            _ => panic!("fit_with_statistics needs a wrapped problem with a single right-hand side (raw problems: statfit::fit_stats)"),
        };
        match r {
            Ok((f, s)) => Ok((AnyFit::S { ok: true, fit: f }, s)),
            Err(f) => Err(AnyFit::S { ok: false, fit: f }),
        }
    }
}

pub enum AnyFit<T: Sc> {
    S { ok: bool, fit: FitResult<Spy<T>, false> },
    M { ok: bool, fit: FitResult<Spy<T>, true> },
    RS { ok: bool, fit: FitResult<varpro::model::SeparableModel<T>, false> },
    RM { ok: bool, fit: FitResult<varpro::model::SeparableModel<T>, true> },
}

/// `single` for the single right-hand-side results, `multi` for the others (same expression for the
/// wrapped and the raw variant)
macro_rules! fits {
    ($self:expr, $f:ident => single $e1:expr, multi $e2:expr) => {
        match $self {
            AnyFit::S { fit: $f, .. } => $e1,
            AnyFit::RS { fit: $f, .. } => $e1,
            AnyFit::M { fit: $f, .. } => $e2,
            AnyFit::RM { fit: $f, .. } => $e2,
        }
    };
    ($self:expr, $f:ident => $e:expr) => {
        fits!($self, $f => single $e, multi $e)
    };
}

impl<T: Sc> AnyFit<T> {
    fn from_s(r: Result<FitResult<Spy<T>, false>, FitResult<Spy<T>, false>>) -> Self {
        match r {
            Ok(fit) => AnyFit::S { ok: true, fit },
            Err(fit) => AnyFit::S { ok: false, fit },
        }
    }
    fn from_m(r: Result<FitResult<Spy<T>, true>, FitResult<Spy<T>, true>>) -> Self {
        match r {
            Ok(fit) => AnyFit::M { ok: true, fit },
            Err(fit) => AnyFit::M { ok: false, fit },
        }
    }
    pub fn is_ok(&self) -> bool {
        match self {
            AnyFit::S { ok, .. } | AnyFit::M { ok, .. } | AnyFit::RS { ok, .. } | AnyFit::RM { ok, .. } => *ok,
        }
    }
    pub fn report(&self) -> &MinimizationReport<T> {
        fits!(self, fit => &fit.minimization_report)
    }
    pub fn termination(&self) -> String {
        format!("{:?}", self.report().termination)
    }
    pub fn term_success(&self) -> bool {
        self.report().termination.was_successful()
    }
    pub fn was_successful(&self) -> bool {
        fits!(self, fit => fit.was_successful())
    }
    pub fn nonlinear_parameters(&self) -> DVector<T> {
        fits!(self, fit => fit.nonlinear_parameters())
    }
    /// coefficients through FitResult::linear_coefficients
    pub fn coeffs(&self) -> Option<DMatrix<T>> {
        fits!(self, fit => single fit.linear_coefficients().map(|c| DMatrix::from_iterator(c.nrows(), 1, c.iter().cloned())),
            multi fit.linear_coefficients().map(|c| c.into_owned()))
    }
    /// best fit and whether it had the documented shape (vector for single, matrix for MRHS)
    pub fn best_fit(&self) -> Option<DMatrix<T>> {
        fits!(self, fit => single fit.best_fit().map(|v: DVector<T>| DMatrix::from_iterator(v.nrows(), 1, v.iter().cloned())),
            multi fit.best_fit())
    }
    pub fn problem_residuals(&self) -> Option<DVector<T>> {
        fits!(self, fit => fit.problem.residuals())
    }
    pub fn problem_jacobian(&self) -> Option<DMatrix<T>> {
        fits!(self, fit => fit.problem.jacobian())
    }
    pub fn problem_params(&self) -> DVector<T> {
        fits!(self, fit => fit.problem.params())
    }
    pub fn problem_coeffs(&self) -> Option<DMatrix<T>> {
        fits!(self, fit => single fit.problem.linear_coefficients().map(|c| DMatrix::from_iterator(c.nrows(), 1, c.iter().cloned())),
            multi fit.problem.linear_coefficients().map(|c| c.into_owned()))
    }
    pub fn weighted_data(&self) -> DMatrix<T> {
        fits!(self, fit => single {
                let d = fit.problem.weighted_data();
                DMatrix::from_iterator(d.nrows(), 1, d.iter().cloned())
            },
            multi fit.problem.weighted_data().into_owned())
    }
    pub fn weighted_phi(&self) -> Option<DMatrix<T>> {
        match self {
            AnyFit::S { fit, .. } => fit.problem.model().inner.eval().ok().map(|phi| fit.problem.weights() * phi),
            AnyFit::M { fit, .. } => fit.problem.model().inner.eval().ok().map(|phi| fit.problem.weights() * phi),
            AnyFit::RS { fit, .. } => fit.problem.model().eval().ok().map(|phi| fit.problem.weights() * phi),
            AnyFit::RM { fit, .. } => fit.problem.model().eval().ok().map(|phi| fit.problem.weights() * phi),
        }
    }
    pub fn into_problem(self) -> AnyProblem<T> {
        match self {
            AnyFit::S { fit, .. } => AnyProblem::SS(fit.problem),
            AnyFit::M { fit, .. } => AnyProblem::MS(fit.problem),
            AnyFit::RS { fit, .. } => AnyProblem::RSS(fit.problem),
            AnyFit::RM { fit, .. } => AnyProblem::RMS(fit.problem),
        }
    }
}

// ---------------------------------------------------------------------------
// ProblemSpy
// ---------------------------------------------------------------------------

/// One parameter application as seen from the optimizer's side of the boundary.
#[derive(Clone, Debug)]
pub struct Step<T: Sc> {
    /// α handed to set_params (None for the initial state the optimizer inherits)
    pub alpha_in: Option<Vec<T>>,
    /// what params() reported afterwards
    pub params_after: Vec<T>,
    pub coeff: Option<DMatrix<T>>,
    /// residual vectors handed to the optimizer while this α was in effect
    pub resid: Vec<Option<DVector<T>>>,
    /// Jacobians handed to the optimizer while this α was in effect
    pub jac: Vec<Option<DMatrix<T>>>,
}

pub struct ProblemSpy<T: Sc> {
    pub inner: AnyProblem<T>,
    pub steps: RefCell<Vec<Step<T>>>,
}

impl<T: Sc> ProblemSpy<T> {
    pub fn new(inner: AnyProblem<T>) -> Self {
        let first = Step {
            alpha_in: None,
            params_after: inner.params().iter().cloned().collect(),
            coeff: inner.coeffs(),
            resid: vec![],
            jac: vec![],
        };
        ProblemSpy {
            inner,
            steps: RefCell::new(vec![first]),
        }
    }
}

impl<T: Sc> LeastSquaresProblem<T, Dyn, Dyn> for ProblemSpy<T> {
    type ResidualStorage = Owned<T, Dyn>;
    type JacobianStorage = Owned<T, Dyn, Dyn>;
    type ParameterStorage = Owned<T, Dyn>;

    fn set_params(&mut self, x: &Vector<T, Dyn, Self::ParameterStorage>) {
        self.inner.set_params(x);
        let st = Step {
            alpha_in: Some(x.iter().cloned().collect()),
            params_after: self.inner.params().iter().cloned().collect(),
            coeff: self.inner.coeffs(),
            resid: vec![],
            jac: vec![],
        };
        self.steps.borrow_mut().push(st);
    }
    fn params(&self) -> Vector<T, Dyn, Self::ParameterStorage> {
        self.inner.params()
    }
    fn residuals(&self) -> Option<Vector<T, Dyn, Self::ResidualStorage>> {
        let r = self.inner.residuals();
        self.steps.borrow_mut().last_mut().unwrap().resid.push(r.clone());
        r
    }
    fn jacobian(&self) -> Option<Matrix<T, Dyn, Dyn, Self::JacobianStorage>> {
        let j = self.inner.jacobian();
        self.steps.borrow_mut().last_mut().unwrap().jac.push(j.clone());
        j
    }
}

/// Run the optimizer over a spied problem (the twin of `LevMarSolver::fit`).
pub fn minimize_spied<T: Sc>(
    lm: &LevenbergMarquardt<T>,
    p: AnyProblem<T>,
) -> (AnyProblem<T>, MinimizationReport<T>, Vec<Step<T>>) {
    let spy = ProblemSpy::new(p);
    let (spy, report) = lm.minimize(spy);
    let steps = spy.steps.into_inner();
    (spy.inner, report, steps)
}

/// optimizer configuration as data
#[derive(Clone, Debug)]
pub struct LmCfg {
    pub ftol: f64,
    pub xtol: f64,
    pub gtol: f64,
    pub stepbound: f64,
    pub patience: usize,
    pub scale_diag: bool,
    pub default: bool,
}

impl LmCfg {
    pub fn default_cfg() -> Self {
        LmCfg { ftol: 0.0, xtol: 0.0, gtol: 0.0, stepbound: 100.0, patience: 100, scale_diag: true, default: true }
    }
    pub fn make<T: Sc>(&self) -> LevenbergMarquardt<T> {
        if self.default {
            return LevenbergMarquardt::new();
        }
        LevenbergMarquardt::new()
            .with_ftol(T::of(self.ftol))
            .with_xtol(T::of(self.xtol))
            .with_gtol(T::of(self.gtol))
            .with_stepbound(T::of(self.stepbound))
            .with_patience(self.patience)
            .with_scale_diag(self.scale_diag)
    }
    pub fn to_json(&self) -> Value {
        if self.default {
            json!("default")
        } else {
            json!({"ftol": self.ftol, "xtol": self.xtol, "gtol": self.gtol, "stepbound": self.stepbound,
                   "patience": self.patience, "scale_diag": self.scale_diag})
        }
    }
    pub fn random(rng: &mut crate::rng::Rng) -> Self {
        if rng.chance(0.25) {
            return LmCfg::default_cfg();
        }
        let tol = |rng: &mut crate::rng::Rng| -> f64 {
            match rng.below(4) {
                0 => 0.0,
                1 => 1e-15,
                2 => rng.logrange(1e-12, 1e-2),
                _ => 30.0 * f64::EPSILON,
            }
        };
        LmCfg {
            ftol: tol(rng),
            xtol: tol(rng),
            gtol: if rng.chance(0.5) { 0.0 } else { tol(rng) },
            stepbound: *rng.pick(&[0.01, 0.1, 1.0, 10.0, 100.0]),
            patience: *rng.pick(&[1, 2, 3, 5, 10, 30, 100]),
            scale_diag: rng.chance(0.5),
            default: false,
        }
    }
    pub fn max_fev(&self, np: usize) -> usize {
        self.patience * (np + 1)
    }
}
