//! The oracle's own small dense linear-algebra kit (f64, column-major `Vec`).
//! Deliberately independent of nalgebra's decompositions: Householder QR,
//! one-sided Jacobi SVD, cyclic Jacobi symmetric eigen-solver.

#[derive(Clone, Debug, PartialEq)]
pub struct Mat {
    pub r: usize,
    pub c: usize,
    pub d: Vec<f64>,
}

impl Mat {
    pub fn zeros(r: usize, c: usize) -> Mat {
        Mat {
            r,
            c,
            d: vec![0.0; r * c],
        }
    }
    pub fn eye(n: usize) -> Mat {
        let mut m = Mat::zeros(n, n);
        for i in 0..n {
            m.d[i * n + i] = 1.0;
        }
        m
    }
    pub fn from_fn(r: usize, c: usize, mut f: impl FnMut(usize, usize) -> f64) -> Mat {
        let mut m = Mat::zeros(r, c);
        for j in 0..c {
            for i in 0..r {
                m.d[j * r + i] = f(i, j);
            }
        }
        m
    }
    pub fn from_cols(r: usize, c: usize, d: Vec<f64>) -> Mat {
        assert_eq!(d.len(), r * c);
        Mat { r, c, d }
    }
    #[inline]
    pub fn at(&self, i: usize, j: usize) -> f64 {
        self.d[j * self.r + i]
    }
    #[inline]
    pub fn set(&mut self, i: usize, j: usize, v: f64) {
        self.d[j * self.r + i] = v;
    }
    pub fn col(&self, j: usize) -> &[f64] {
        &self.d[j * self.r..(j + 1) * self.r]
    }
    pub fn col_mut(&mut self, j: usize) -> &mut [f64] {
        let r = self.r;
        &mut self.d[j * r..(j + 1) * r]
    }
    pub fn t(&self) -> Mat {
        Mat::from_fn(self.c, self.r, |i, j| self.at(j, i))
    }
    pub fn mul(&self, o: &Mat) -> Mat {
        assert_eq!(self.c, o.r, "mul dims");
        let mut m = Mat::zeros(self.r, o.c);
        for j in 0..o.c {
            for k in 0..self.c {
                let b = o.at(k, j);
                if b == 0.0 {
                    continue;
                }
                let a = self.col(k);
                let out = &mut m.d[j * self.r..(j + 1) * self.r];
                for i in 0..self.r {
                    out[i] += a[i] * b;
                }
            }
        }
        m
    }
    /// selfᵀ · o
    pub fn tmul(&self, o: &Mat) -> Mat {
        assert_eq!(self.r, o.r, "tmul dims");
        Mat::from_fn(self.c, o.c, |i, j| dot(self.col(i), o.col(j)))
    }
    pub fn sub(&self, o: &Mat) -> Mat {
        assert_eq!((self.r, self.c), (o.r, o.c));
        Mat {
            r: self.r,
            c: self.c,
            d: self.d.iter().zip(&o.d).map(|(a, b)| a - b).collect(),
        }
    }
    pub fn add(&self, o: &Mat) -> Mat {
        assert_eq!((self.r, self.c), (o.r, o.c));
        Mat {
            r: self.r,
            c: self.c,
            d: self.d.iter().zip(&o.d).map(|(a, b)| a + b).collect(),
        }
    }
    pub fn scale(&self, s: f64) -> Mat {
        Mat {
            r: self.r,
            c: self.c,
            d: self.d.iter().map(|a| a * s).collect(),
        }
    }
    /// diag(w) · self
    pub fn row_scale(&self, w: &[f64]) -> Mat {
        assert_eq!(w.len(), self.r);
        Mat::from_fn(self.r, self.c, |i, j| w[i] * self.at(i, j))
    }
    pub fn fro(&self) -> f64 {
        norm2(&self.d)
    }
    pub fn max_abs(&self) -> f64 {
        self.d.iter().fold(0.0, |m, v| f64::max(m, v.abs()))
    }
    pub fn all_finite(&self) -> bool {
        self.d.iter().all(|v| v.is_finite())
    }
    pub fn abs(&self) -> Mat {
        Mat {
            r: self.r,
            c: self.c,
            d: self.d.iter().map(|a| a.abs()).collect(),
        }
    }
    pub fn colvec(v: &[f64]) -> Mat {
        Mat::from_cols(v.len(), 1, v.to_vec())
    }
    pub fn sub_cols(&self, from: usize, to: usize) -> Mat {
        Mat::from_cols(self.r, to - from, self.d[from * self.r..to * self.r].to_vec())
    }
}

pub fn dot(a: &[f64], b: &[f64]) -> f64 {
    debug_assert_eq!(a.len(), b.len());
    // compensated (pairwise-ish) summation is not needed at these sizes; use
    // a plain loop with an f64 accumulator plus Neumaier compensation so the
    // oracle's own rounding stays well below the tolerances it polices.
    let mut s = 0.0f64;
    let mut c = 0.0f64;
    for i in 0..a.len() {
        let p = a[i] * b[i];
        let t = s + p;
        if s.abs() >= p.abs() {
            c += (s - t) + p;
        } else {
            c += (p - t) + s;
        }
        s = t;
    }
    s + c
}

pub fn norm2(a: &[f64]) -> f64 {
    let m = a.iter().fold(0.0, |m: f64, v| m.max(v.abs()));
    if m == 0.0 || !m.is_finite() {
        return m;
    }
    let mut s = 0.0;
    for v in a {
        let t = v / m;
        s += t * t;
    }
    m * s.sqrt()
}

/// Thin Householder QR of an n×m matrix (n ≥ m). Returns Q (n×m, orthonormal
/// columns) and R (m×m upper triangular).
pub fn qr(a: &Mat) -> (Mat, Mat) {
    let (n, m) = (a.r, a.c);
    assert!(n >= m);
    let mut r = a.clone();
    let mut vs: Vec<Vec<f64>> = Vec::with_capacity(m);
    for k in 0..m {
        let mut v = vec![0.0; n];
        for i in k..n {
            v[i] = r.at(i, k);
        }
        let alpha = norm2(&v[k..]);
        if alpha == 0.0 {
            vs.push(v);
            continue;
        }
        let sgn = if v[k] >= 0.0 { 1.0 } else { -1.0 };
        v[k] += sgn * alpha;
        let vn = norm2(&v[k..]);
        for i in k..n {
            v[i] /= vn;
        }
        for j in k..m {
            let mut s = 0.0;
            for i in k..n {
                s += v[i] * r.at(i, j);
            }
            for i in k..n {
                let val = r.at(i, j) - 2.0 * s * v[i];
                r.set(i, j, val);
            }
        }
        vs.push(v);
    }
    // accumulate Q = H_0 H_1 ... H_{m-1} applied to first m columns of I
    let mut q = Mat::zeros(n, m);
    for j in 0..m {
        q.set(j, j, 1.0);
    }
    for k in (0..m).rev() {
        let v = &vs[k];
        if v.iter().all(|x| *x == 0.0) {
            continue;
        }
        for j in 0..m {
            let mut s = 0.0;
            for i in k..n {
                s += v[i] * q.at(i, j);
            }
            for i in k..n {
                let val = q.at(i, j) - 2.0 * s * v[i];
                q.set(i, j, val);
            }
        }
    }
    let rr = Mat::from_fn(m, m, |i, j| if i <= j { r.at(i, j) } else { 0.0 });
    (q, rr)
}

/// One-sided (Hestenes) Jacobi SVD of an n×m matrix. Returns (U n×k, s, V m×k)
/// with k = min(n, m), singular values sorted descending; columns of U that
/// belong to zero singular values are zero.
pub fn svd(a: &Mat) -> (Mat, Vec<f64>, Mat) {
    if a.r < a.c {
        let (u, s, v) = svd(&a.t());
        return (v, s, u);
    }
    let (n, m) = (a.r, a.c);
    // scale by a power of two so that squares cannot overflow/underflow
    let mx = a.max_abs();
    if mx > 0.0 && mx.is_finite() && !(1e-100..=1e100).contains(&mx) {
        let e = mx.log2().floor();
        let f = 2f64.powf(-e.clamp(-1000.0, 1000.0));
        let (u, s, v) = svd(&a.scale(f));
        return (u, s.into_iter().map(|x| x / f).collect(), v);
    }
    let mut u = a.clone();
    let mut v = Mat::eye(m);
    let eps = f64::EPSILON;
    for _sweep in 0..60 {
        let mut rotated = false;
        for p in 0..m {
            for q in (p + 1)..m {
                let alpha = dot(u.col(p), u.col(p));
                let beta = dot(u.col(q), u.col(q));
                let gamma = dot(u.col(p), u.col(q));
                if gamma == 0.0 || gamma.abs() <= eps * (alpha * beta).sqrt() {
                    continue;
                }
                rotated = true;
                let zeta = (beta - alpha) / (2.0 * gamma);
                let t = zeta.signum() / (zeta.abs() + (1.0 + zeta * zeta).sqrt());
                let t = if zeta == 0.0 { 1.0 } else { t };
                let c = 1.0 / (1.0 + t * t).sqrt();
                let s = c * t;
                for i in 0..n {
                    let up = u.at(i, p);
                    let uq = u.at(i, q);
                    u.set(i, p, c * up - s * uq);
                    u.set(i, q, s * up + c * uq);
                }
                for i in 0..m {
                    let vp = v.at(i, p);
                    let vq = v.at(i, q);
                    v.set(i, p, c * vp - s * vq);
                    v.set(i, q, s * vp + c * vq);
                }
            }
        }
        if !rotated {
            break;
        }
    }
    let mut sv: Vec<(f64, usize)> = (0..m).map(|j| (norm2(u.col(j)), j)).collect();
    sv.sort_by(|a, b| b.0.partial_cmp(&a.0).unwrap_or(std::cmp::Ordering::Equal));
    let mut uu = Mat::zeros(n, m);
    let mut vv = Mat::zeros(m, m);
    let mut s = Vec::with_capacity(m);
    for (k, (sig, j)) in sv.iter().enumerate() {
        s.push(*sig);
        for i in 0..n {
            uu.set(i, k, if *sig > 0.0 { u.at(i, *j) / sig } else { 0.0 });
        }
        for i in 0..m {
            vv.set(i, k, v.at(i, *j));
        }
    }
    (uu, s, vv)
}

/// singular values only
pub fn singular_values(a: &Mat) -> Vec<f64> {
    svd(a).1
}

/// Truncated pseudo-inverse solve: minimum-norm least-squares solution of
/// A·X = B treating singular values ≤ thr as zero.
pub fn pinv_solve(a: &Mat, b: &Mat, thr: f64) -> Mat {
    let (u, s, v) = svd(a);
    let k = s.len();
    let utb = u.tmul(b); // k×S
    let mut z = Mat::zeros(k, b.c);
    for j in 0..b.c {
        for i in 0..k {
            if s[i] > thr {
                z.set(i, j, utb.at(i, j) / s[i]);
            }
        }
    }
    v.mul(&z)
}

/// Least squares through QR (full column rank assumed): X = R⁻¹ Qᵀ B
pub fn qr_solve(a: &Mat, b: &Mat) -> Mat {
    let (q, r) = qr(a);
    let qtb = q.tmul(b);
    back_subst(&r, &qtb)
}

pub fn back_subst(r: &Mat, b: &Mat) -> Mat {
    let m = r.r;
    let mut x = Mat::zeros(m, b.c);
    for j in 0..b.c {
        for i in (0..m).rev() {
            let mut s = b.at(i, j);
            for k in (i + 1)..m {
                s -= r.at(i, k) * x.at(k, j);
            }
            x.set(i, j, s / r.at(i, i));
        }
    }
    x
}

/// Cyclic Jacobi eigen-decomposition of a symmetric matrix. Returns
/// (eigenvalues, eigenvectors as columns), unsorted.
pub fn sym_eig(a: &Mat) -> (Vec<f64>, Mat) {
    let n = a.r;
    assert_eq!(a.r, a.c);
    let mut m = Mat::from_fn(n, n, |i, j| 0.5 * (a.at(i, j) + a.at(j, i)));
    let mut v = Mat::eye(n);
    for _sweep in 0..80 {
        let mut off = 0.0;
        for p in 0..n {
            for q in (p + 1)..n {
                off += m.at(p, q) * m.at(p, q);
            }
        }
        let diag: f64 = (0..n).map(|i| m.at(i, i) * m.at(i, i)).sum();
        if off == 0.0 || off <= 1e-32 * diag {
            break;
        }
        for p in 0..n {
            for q in (p + 1)..n {
                let apq = m.at(p, q);
                if apq == 0.0 {
                    continue;
                }
                let theta = (m.at(q, q) - m.at(p, p)) / (2.0 * apq);
                let t = if theta == 0.0 {
                    1.0
                } else {
                    theta.signum() / (theta.abs() + (theta * theta + 1.0).sqrt())
                };
                let c = 1.0 / (t * t + 1.0).sqrt();
                let s = t * c;
                for k in 0..n {
                    let akp = m.at(k, p);
                    let akq = m.at(k, q);
                    m.set(k, p, c * akp - s * akq);
                    m.set(k, q, s * akp + c * akq);
                }
                for k in 0..n {
                    let apk = m.at(p, k);
                    let aqk = m.at(q, k);
                    m.set(p, k, c * apk - s * aqk);
                    m.set(q, k, s * apk + c * aqk);
                }
                for k in 0..n {
                    let vkp = v.at(k, p);
                    let vkq = v.at(k, q);
                    v.set(k, p, c * vkp - s * vkq);
                    v.set(k, q, s * vkp + c * vkq);
                }
            }
        }
    }
    ((0..n).map(|i| m.at(i, i)).collect(), v)
}

/// modified Gram-Schmidt, applied twice; returns an n×m matrix with orthonormal columns
pub fn orthonormalize(a: &Mat) -> Mat {
    let mut q = a.clone();
    for _pass in 0..2 {
        for j in 0..q.c {
            for k in 0..j {
                let d = dot(q.col(k), q.col(j));
                let qk: Vec<f64> = q.col(k).to_vec();
                let cj = q.col_mut(j);
                for i in 0..cj.len() {
                    cj[i] -= d * qk[i];
                }
            }
            let nrm = norm2(q.col(j));
            let cj = q.col_mut(j);
            for v in cj.iter_mut() {
                *v /= nrm;
            }
        }
    }
    q
}

/// self test of the kit; returns Err(description) on failure
pub fn selftest() -> Result<(), String> {
    use crate::rng::Rng;
    let mut rng = Rng::new(12345);
    for trial in 0..200 {
        let n = rng.int(1, 12);
        let m = rng.int(1, n);
        let a = Mat::from_fn(n, m, |_, _| rng.normal() * rng.logrange(1e-3, 1e3));
        // QR
        let (q, r) = qr(&a);
        let rec = q.mul(&r);
        let err = rec.sub(&a).fro() / a.fro().max(1e-300);
        if err > 1e-13 {
            return Err(format!("qr reconstruction {err} trial {trial}"));
        }
        let qtq = q.tmul(&q).sub(&Mat::eye(m)).fro();
        if qtq > 1e-13 {
            return Err(format!("qr orthogonality {qtq}"));
        }
        // SVD
        let (u, s, v) = svd(&a);
        let us = Mat::from_fn(n, m, |i, j| u.at(i, j) * s[j]);
        let rec = us.mul(&v.t());
        let err = rec.sub(&a).fro() / a.fro().max(1e-300);
        if err > 1e-13 {
            return Err(format!("svd reconstruction {err} trial {trial}"));
        }
        for k in 1..s.len() {
            if s[k] > s[k - 1] {
                return Err("svd order".into());
            }
        }
        // eigen
        let g = a.tmul(&a);
        let (ev, vv) = sym_eig(&g);
        let lam = Mat::from_fn(m, m, |i, j| if i == j { ev[i] } else { 0.0 });
        let rec = vv.mul(&lam).mul(&vv.t());
        let err = rec.sub(&g).fro() / g.fro().max(1e-300);
        if err > 1e-12 {
            return Err(format!("eig reconstruction {err}"));
        }
        let mut evs = ev.clone();
        evs.sort_by(|a, b| b.partial_cmp(a).unwrap());
        for k in 0..m {
            let want = s[k] * s[k];
            if (evs[k] - want).abs() > 1e-10 * (s[0] * s[0]) {
                return Err(format!("eig vs svd {} {}", evs[k], want));
            }
        }
    }
    // known singular values by construction
    for _ in 0..50 {
        let n = rng.int(2, 10);
        let m = rng.int(1, n);
        let q = orthonormalize(&Mat::from_fn(n, m, |_, _| rng.normal()));
        let p = orthonormalize(&Mat::from_fn(m, m, |_, _| rng.normal()));
        let mut s: Vec<f64> = (0..m).map(|_| rng.logrange(1e-8, 1.0)).collect();
        s.sort_by(|a, b| b.partial_cmp(a).unwrap());
        let a = Mat::from_fn(n, m, |i, j| q.at(i, j) * s[j]).mul(&p.t());
        let got = singular_values(&a);
        for k in 0..m {
            if (got[k] - s[k]).abs() > 1e-14 * s[0] + 1e-12 * s[k] {
                return Err(format!("designed sv {} vs {}", got[k], s[k]));
            }
        }
    }
    Ok(())
}
