use vpcheck::run::{Ctx, Tier};

#[global_allocator]
static GLOBAL: vpcheck::poison::Poison = vpcheck::poison::Poison;

fn usage() -> ! {
    eprintln!("usage: vpcheck <C01..C19|selftest> [quick|thorough] [--seed N] [--replay FILE]");
    std::process::exit(2)
}

fn main() {
    let args: Vec<String> = std::env::args().skip(1).collect();
    if args.is_empty() {
        usage();
    }
    vpcheck::run::install_panic_hook();
    let prop = args[0].clone();
    if prop == "selftest" {
        match vpcheck::selftest() {
            Ok(()) => {
                println!("selftest ok");
                return;
            }
            Err(e) => {
                eprintln!("HARNESS-ERROR: oracle self-test failed: {e}");
                std::process::exit(2);
            }
        }
    }
    if prop == "sanitizer-workload" {
        // sanitizer-workload <prop> <seed> <cases> <nmax> <len>   (allocator stays in pass-through mode)
        if args.len() < 6 {
            usage();
        }
        let (obs, sum) = vpcheck::sanitizer_workload(&args[1], args[2].parse().unwrap(), args[3].parse().unwrap(), args[4].parse().unwrap(), args[5].parse().unwrap());
        println!("sanitizer-workload {} {} {:016x}", args[1], obs, sum);
        return;
    }
    if prop == "c10-order" {
        // c10-order <seed> <0|1>: see props::c10::order_probe
        let seed: u64 = args.get(1).and_then(|s| s.parse().ok()).unwrap_or(0);
        let f32_first = args.get(2).map(|s| s == "1").unwrap_or(false);
        println!("c10-order {:016x}", vpcheck::props::c10::order_probe(seed, f32_first));
        return;
    }
    if prop == "worker" {
        // worker <prop> <stream> <tier> <seed> <start> <step> <end>
        if args.len() < 8 {
            usage();
        }
        let p = args[1].as_str();
        let stream = args[2].as_str();
        let seed: u64 = args[4].parse().unwrap_or(0);
        let start: u64 = args[5].parse().unwrap_or(0);
        let step: u64 = args[6].parse().unwrap_or(1);
        let end: u64 = args[7].parse().unwrap_or(0);
        let f: &vpcheck::procmon::WorkerCase = match (p, stream) {
            ("C08", _) => &vpcheck::props::c08::case,
            ("C12", _) => &vpcheck::props::c12::case,
            ("C14", _) => &vpcheck::props::c14::worker_case,
            ("C10", "poison") => &vpcheck::props::c10::poison_case,
            _ => usage(),
        };
        vpcheck::procmon::worker_loop(p, stream, seed, start, step, end, f);
        return;
    }
    let mut tier = match std::env::var("VERIF_TIER").as_deref() {
        Ok("thorough") => Tier::Thorough,
        _ => Tier::Quick,
    };
    let mut seed: u64 = std::env::var("VERIF_SEED").ok().and_then(|s| s.parse().ok()).unwrap_or(0);
    let mut replay: Option<(String, u64)> = None;
    let mut i = 1;
    while i < args.len() {
        match args[i].as_str() {
            "quick" => tier = Tier::Quick,
            "thorough" => tier = Tier::Thorough,
            "--seed" => {
                i += 1;
                seed = args.get(i).and_then(|s| s.parse().ok()).unwrap_or_else(|| usage());
            }
            "--replay" => {
                i += 1;
                let path = args.get(i).cloned().unwrap_or_else(|| usage());
                let body = std::fs::read_to_string(&path).unwrap_or_else(|e| {
                    eprintln!("cannot read replay file {path}: {e}");
                    std::process::exit(2)
                });
                let j: serde_json::Value = serde_json::from_str(&body).unwrap_or_else(|e| {
                    eprintln!("cannot parse replay file: {e}");
                    std::process::exit(2)
                });
                seed = j["seed"].as_u64().unwrap_or(0);
                tier = if j["tier"] == "thorough" { Tier::Thorough } else { Tier::Quick };
                replay = Some((j["stream"].as_str().unwrap_or("").to_string(), j["case"].as_u64().unwrap_or(0)));
            }
            _ => usage(),
        }
        i += 1;
    }
    if let Err(e) = vpcheck::selftest() {
        eprintln!("HARNESS-ERROR: oracle self-test failed: {e}");
        std::process::exit(2);
    }
    let level = match prop.as_str() {
        "C09" => "fault_enumeration",
        _ => "exploration",
    };
    let ctx = Ctx::new(&prop, tier, seed, replay, level);
    match prop.as_str() {
        "C01" => vpcheck::props::c01::run(&ctx),
        "C02" => vpcheck::props::c02::run(&ctx),
        "C03" => vpcheck::props::c03::run(&ctx),
        "C04" => vpcheck::props::c04::run(&ctx),
        "C05" => vpcheck::props::c05::run(&ctx),
        "C06" => vpcheck::props::c06::run(&ctx),
        "C07" => vpcheck::props::c07::run(&ctx),
        "C08" => vpcheck::props::c08::run(&ctx),
        "C10" => vpcheck::props::c10::run(&ctx),
        "C11" => vpcheck::props::c11::run(&ctx),
        "C09" => vpcheck::props::c09::run(&ctx),
        "C12" => vpcheck::props::c12::run(&ctx),
        "C13" => vpcheck::props::c13::run(&ctx),
        "C14" => vpcheck::props::c14::run(&ctx),
        "C15" => vpcheck::props::c15::run(&ctx),
        "C16" => vpcheck::props::c16::run(&ctx),
        "C17" => vpcheck::props::c17::run(&ctx),
        "C18" => vpcheck::props::c18::run(&ctx),
        "C19" => vpcheck::props::c19::run(&ctx),
        _ => usage(),
    }
    std::process::exit(ctx.finish());
}
