//! Poisoning global allocator (native engine only). Mode 0 is a pass-through to
//! the system allocator (required under memcheck, which must see raw malloc'd
//! memory as undefined); modes 1..3 fill every fresh block (and the grown tail
//! of a realloc) with 0xAA.., 0x55.. or per-block pseudo-random bytes.

use std::alloc::{GlobalAlloc, Layout, System};
use std::sync::atomic::{AtomicU64, AtomicU8, Ordering::Relaxed};

pub struct Poison;

static MODE: AtomicU8 = AtomicU8::new(0);
static COUNTER: AtomicU64 = AtomicU64::new(0x9E37_79B9_7F4A_7C15);
pub static BLOCKS_POISONED: AtomicU64 = AtomicU64::new(0);

pub fn set_mode(m: u8) {
    MODE.store(m, Relaxed);
}
pub fn mode() -> u8 {
    MODE.load(Relaxed)
}

pub const PATTERN_AA_64: u64 = 0xAAAA_AAAA_AAAA_AAAA;
pub const PATTERN_55_64: u64 = 0x5555_5555_5555_5555;
pub const PATTERN_AA_32: u64 = 0xAAAA_AAAA;
pub const PATTERN_55_32: u64 = 0x5555_5555;

#[inline]
unsafe fn fill(p: *mut u8, len: usize, mode: u8) {
    if len > (1 << 22) {
        return;
    }
    BLOCKS_POISONED.fetch_add(1, Relaxed);
    match mode {
        1 => std::ptr::write_bytes(p, 0xAA, len),
        2 => std::ptr::write_bytes(p, 0x55, len),
        _ => {
            let mut s = COUNTER.fetch_add(0x9E37_79B9_7F4A_7C15, Relaxed) | 1;
            for i in 0..len {
                s ^= s << 13;
                s ^= s >> 7;
                s ^= s << 17;
                *p.add(i) = (s >> 24) as u8;
            }
        }
    }
}

unsafe impl GlobalAlloc for Poison {
    unsafe fn alloc(&self, l: Layout) -> *mut u8 {
        let p = System.alloc(l);
        let m = MODE.load(Relaxed);
        if m != 0 && !p.is_null() {
            fill(p, l.size(), m);
        }
        p
    }
    unsafe fn dealloc(&self, p: *mut u8, l: Layout) {
        System.dealloc(p, l)
    }
    unsafe fn alloc_zeroed(&self, l: Layout) -> *mut u8 {
        System.alloc_zeroed(l)
    }
    unsafe fn realloc(&self, p: *mut u8, l: Layout, new_size: usize) -> *mut u8 {
        let q = System.realloc(p, l, new_size);
        let m = MODE.load(Relaxed);
        if m != 0 && !q.is_null() && new_size > l.size() {
            fill(q.add(l.size()), new_size - l.size(), m);
        }
        q
    }
}
