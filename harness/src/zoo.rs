//! Model zoo. Basis functions are given by closed formulas (value and partial
//! derivatives) generic over the scalar width. The same formula functions are
//! used (a) inside the closures handed to varpro's `SeparableModelBuilder`,
//! (b) inside hand-written `SeparableNonlinearModel` implementations and (c) by
//! the oracle, which routes parameters *by index itself* and assembles Φ and
//! ∂Φ/∂α_k without going through varpro.

use crate::la::Mat;
use crate::sc::{dvec, Sc};
use nalgebra::{DMatrix, DVector, Dyn, OMatrix, OVector};
use serde_json::{json, Value};
use varpro::model::SeparableModel;
use varpro::prelude::*;

#[derive(Clone, Debug, PartialEq)]
pub enum Basis {
    /// 1
    Const,
    /// x
    Lin,
    /// exp(-x/a)
    Exp(usize),
    /// exp(-a x)
    ExpRate(usize),
    /// exp(-a x) cos(b x)
    ExpCos(usize, usize),
    /// exp(-(x-mu)^2/(2 s^2))
    Gauss(usize, usize),
    /// 1/(1+a x)
    Rat1(usize),
    /// 1/(1+(a x)^2)
    Rat2(usize),
    /// sin(a x)
    Sin(usize),
}

impl Basis {
    /// model-parameter indices this function depends on, in the function's own order
    pub fn params(&self) -> Vec<usize> {
        match self {
            Basis::Const | Basis::Lin => vec![],
            Basis::Exp(p) | Basis::ExpRate(p) | Basis::Rat1(p) | Basis::Rat2(p) | Basis::Sin(p) => {
                vec![*p]
            }
            Basis::ExpCos(p, q) | Basis::Gauss(p, q) => vec![*p, *q],
        }
    }
    /// value with the function's own argument list
    pub fn val_local<T: Sc>(&self, x: T, a: &[T]) -> T {
        let one = T::of(1.0);
        match self {
            Basis::Const => one,
            Basis::Lin => x,
            Basis::Exp(_) => (-x / a[0]).exp_(),
            Basis::ExpRate(_) => (-a[0] * x).exp_(),
            Basis::ExpCos(_, _) => (-a[0] * x).exp_() * (a[1] * x).cos_(),
            Basis::Gauss(_, _) => {
                let d = x - a[0];
                (-(d * d) / (T::of(2.0) * a[1] * a[1])).exp_()
            }
            Basis::Rat1(_) => one / (one + a[0] * x),
            Basis::Rat2(_) => one / (one + (a[0] * x) * (a[0] * x)),
            Basis::Sin(_) => (a[0] * x).sin_(),
        }
    }
    /// derivative with respect to the `which`-th local argument
    pub fn der_local<T: Sc>(&self, x: T, a: &[T], which: usize) -> T {
        let one = T::of(1.0);
        match self {
            Basis::Const | Basis::Lin => T::of(0.0),
            Basis::Exp(_) => x / (a[0] * a[0]) * (-x / a[0]).exp_(),
            Basis::ExpRate(_) => -x * (-a[0] * x).exp_(),
            Basis::ExpCos(_, _) => {
                if which == 0 {
                    -x * (-a[0] * x).exp_() * (a[1] * x).cos_()
                } else {
                    -x * (-a[0] * x).exp_() * (a[1] * x).sin_()
                }
            }
            Basis::Gauss(_, _) => {
                let d = x - a[0];
                let g = (-(d * d) / (T::of(2.0) * a[1] * a[1])).exp_();
                if which == 0 {
                    d / (a[1] * a[1]) * g
                } else {
                    d * d / (a[1] * a[1] * a[1]) * g
                }
            }
            Basis::Rat1(_) => {
                let den = one + a[0] * x;
                -x / (den * den)
            }
            Basis::Rat2(_) => {
                let den = one + (a[0] * x) * (a[0] * x);
                -(T::of(2.0) * a[0] * x * x) / (den * den)
            }
            Basis::Sin(_) => x * (a[0] * x).cos_(),
        }
    }
    fn local_args<T: Sc>(&self, alpha: &[T]) -> Vec<T> {
        self.params().iter().map(|p| alpha[*p]).collect()
    }
    /// the oracle's routing: pick arguments out of the full α by index
    pub fn val<T: Sc>(&self, x: T, alpha: &[T]) -> T {
        self.val_local(x, &self.local_args(alpha))
    }
    /// derivative w.r.t. *model* parameter k (zero if independent of it)
    pub fn der<T: Sc>(&self, x: T, alpha: &[T], k: usize) -> T {
        match self.params().iter().position(|p| *p == k) {
            None => T::of(0.0),
            Some(which) => self.der_local(x, &self.local_args(alpha), which),
        }
    }
    pub fn tag(&self) -> String {
        format!("{:?}", self)
    }
    /// inverse of `tag`
    pub fn from_tag(t: &str) -> Option<Basis> {
        let t = t.trim();
        let (name, args): (&str, Vec<usize>) = match t.find('(') {
            None => (t, vec![]),
            Some(i) => (&t[..i], t[i + 1..t.len() - 1].split(',').filter_map(|x| x.trim().parse().ok()).collect()),
        };
        Some(match (name, args.as_slice()) {
            ("Const", []) => Basis::Const,
            ("Lin", []) => Basis::Lin,
            ("Exp", [p]) => Basis::Exp(*p),
            ("ExpRate", [p]) => Basis::ExpRate(*p),
            ("ExpCos", [p, q]) => Basis::ExpCos(*p, *q),
            ("Gauss", [p, q]) => Basis::Gauss(*p, *q),
            ("Rat1", [p]) => Basis::Rat1(*p),
            ("Rat2", [p]) => Basis::Rat2(*p),
            ("Sin", [p]) => Basis::Sin(*p),
            _ => return None,
        })
    }
}

#[derive(Clone, Debug, PartialEq)]
pub struct ModelSpec {
    pub x: Vec<f64>,
    pub basis: Vec<Basis>,
    pub np: usize,
}

impl ModelSpec {
    pub fn n(&self) -> usize {
        self.x.len()
    }
    pub fn m(&self) -> usize {
        self.basis.len()
    }
    pub fn valid(&self) -> bool {
        // every parameter used; at least one basis
        !self.basis.is_empty()
            && self.np >= 1
            && (0..self.np).all(|k| self.basis.iter().any(|b| b.params().contains(&k)))
    }
    /// Φ(α) evaluated in T
    pub fn phi<T: Sc>(&self, alpha: &[T]) -> DMatrix<T> {
        let xs: Vec<T> = self.x.iter().map(|v| T::of(*v)).collect();
        DMatrix::from_fn(self.n(), self.m(), |i, j| self.basis[j].val(xs[i], alpha))
    }
    pub fn dphi<T: Sc>(&self, alpha: &[T], k: usize) -> DMatrix<T> {
        let xs: Vec<T> = self.x.iter().map(|v| T::of(*v)).collect();
        DMatrix::from_fn(self.n(), self.m(), |i, j| self.basis[j].der(xs[i], alpha, k))
    }
    /// Φ(α) evaluated in the scalar type under test, then widened
    pub fn phi64<T: Sc>(&self, alpha: &[f64]) -> Mat {
        let a: Vec<T> = alpha.iter().map(|v| T::of(*v)).collect();
        crate::sc::widen(&self.phi::<T>(&a))
    }
    pub fn dphi64<T: Sc>(&self, alpha: &[f64], k: usize) -> Mat {
        let a: Vec<T> = alpha.iter().map(|v| T::of(*v)).collect();
        crate::sc::widen(&self.dphi::<T>(&a, k))
    }
    pub fn to_json(&self) -> Value {
        json!({"x": self.x, "basis": self.basis.iter().map(|b| b.tag()).collect::<Vec<_>>(), "np": self.np})
    }
    pub fn from_json(v: &Value) -> Option<ModelSpec> {
        let x: Vec<f64> = v["x"].as_array()?.iter().filter_map(|a| a.as_f64()).collect();
        let basis: Option<Vec<Basis>> = v["basis"].as_array()?.iter().map(|b| b.as_str().and_then(Basis::from_tag)).collect();
        Some(ModelSpec { x, basis: basis?, np: v["np"].as_u64()? as usize })
    }
    /// parameter names for the builder: distinct words whose lexicographic order is unrelated to
    /// the model order (a different rotation of the pool per specification), so that any code
    /// path that sorts, searches or compares names instead of using the declared order shows
    pub fn names(&self) -> Vec<String> {
        const POOL: [&str; 24] = [
            "tau", "omega", "mu", "sigma", "k1", "k2", "phi", "rho", "zeta", "nu", "xi", "chi", "beta", "gamma", "delta", "eps", "kappa", "lambda", "theta", "iota", "psi", "eta",
            "upsilon", "alpha",
        ];
        let h = crate::rng::hash_u64s([self.np as u64, self.x.len() as u64, crate::rng::fnv(format!("{:?}", self.basis).as_bytes())]) as usize;
        (0..self.np).map(|k| if k < 24 { POOL[(h + 7 * k) % 24].to_string() } else { format!("{}{}", POOL[(h + 7 * k) % 24], k / 24) }).collect()
    }
}

/// Build the spec with varpro's `SeparableModelBuilder`. Parameter routing by
/// name and column placement is done by varpro.
pub fn build_model<T: Sc>(spec: &ModelSpec, alpha0: &[f64]) -> SeparableModel<T> {
    let names = spec.names();
    let mut b = SeparableModelBuilder::<T>::new(names.clone());
    // every third specification gives the builder a decoy grid first (same length, other values): the
    // independent variable may be supplied more than once and the last one counts
    if crate::rng::hash_u64s([spec.x.len() as u64, spec.np as u64, spec.basis.len() as u64]) % 3 == 0 {
        b = b.independent_variable(dvec::<T>(&spec.x.iter().map(|v| 0.5 * v + 1.25).collect::<Vec<f64>>()));
    }
    for basis in &spec.basis {
        let ps = basis.params();
        let fnames: Vec<String> = ps.iter().map(|p| names[*p].clone()).collect();
        match ps.len() {
            0 => {
                let bb = basis.clone();
                b = b.invariant_function(move |x: &DVector<T>| x.map(|xi| bb.val_local(xi, &[])));
            }
            1 => {
                let bb = basis.clone();
                b = b.function(fnames.clone(), move |x: &DVector<T>, a: T| {
                    x.map(|xi| bb.val_local(xi, &[a]))
                });
                let bb = basis.clone();
                b = b.partial_deriv(fnames[0].clone(), move |x: &DVector<T>, a: T| {
                    x.map(|xi| bb.der_local(xi, &[a], 0))
                });
            }
            2 => {
                let bb = basis.clone();
                b = b.function(fnames.clone(), move |x: &DVector<T>, a: T, c: T| {
                    x.map(|xi| bb.val_local(xi, &[a, c]))
                });
                // derivatives supplied in reverse order on purpose
                for which in [1usize, 0usize] {
                    let bb = basis.clone();
                    b = b.partial_deriv(fnames[which].clone(), move |x: &DVector<T>, a: T, c: T| {
                        x.map(|xi| bb.der_local(xi, &[a, c], which))
                    });
                }
            }
            _ => unreachable!(),
        }
    }
    b.independent_variable(dvec::<T>(&spec.x))
        .initial_parameters(alpha0.iter().map(|v| T::of(*v)).collect())
        .build()
        .expect("zoo model must build")
}

#[derive(Debug, Clone, PartialEq, Eq)]
pub struct ZooError(pub String);
impl std::fmt::Display for ZooError {
    fn fmt(&self, f: &mut std::fmt::Formatter<'_>) -> std::fmt::Result {
        write!(f, "{}", self.0)
    }
}
impl std::error::Error for ZooError {}

/// Hand-written incarnation of a spec.
#[derive(Clone, Debug)]
pub struct HandModel<T: Sc> {
    pub spec: ModelSpec,
    pub params: DVector<T>,
    /// if set, `set_params` rejects vectors whose first entry is NaN and keeps the old ones
    pub reject_nan: bool,
}

impl<T: Sc> HandModel<T> {
    pub fn new(spec: &ModelSpec, alpha0: &[f64]) -> Self {
        HandModel {
            spec: spec.clone(),
            params: dvec::<T>(alpha0),
            reject_nan: false,
        }
    }
}

impl<T: Sc> SeparableNonlinearModel for HandModel<T> {
    type ScalarType = T;
    type Error = ZooError;
    fn parameter_count(&self) -> usize {
        self.spec.np
    }
    fn base_function_count(&self) -> usize {
        self.spec.m()
    }
    fn output_len(&self) -> usize {
        self.spec.n()
    }
    fn set_params(&mut self, parameters: OVector<T, Dyn>) -> Result<(), ZooError> {
        if parameters.len() != self.spec.np {
            return Err(ZooError("wrong parameter count".into()));
        }
        if self.reject_nan && parameters.iter().any(|v| !v.fin()) {
            return Err(ZooError("non-finite parameter rejected".into()));
        }
        self.params = parameters;
        Ok(())
    }
    fn params(&self) -> OVector<T, Dyn> {
        self.params.clone()
    }
    fn eval(&self) -> Result<OMatrix<T, Dyn, Dyn>, ZooError> {
        Ok(self.spec.phi::<T>(self.params.as_slice()))
    }
    fn eval_partial_deriv(&self, k: usize) -> Result<OMatrix<T, Dyn, Dyn>, ZooError> {
        if k >= self.spec.np {
            return Err(ZooError("derivative index".into()));
        }
        Ok(self.spec.dphi::<T>(self.params.as_slice(), k))
    }
}

/// Z5: Φ(α) = Q · diag(s) · G(α)ᵀ with Q orthonormal (N×M), G a product of
/// Givens rotations G_0(α_0)·G_1(α_1)… in planes (k,k+1). Singular values are
/// `s` by construction for every α. For M = 1 there is one dummy angle.
#[derive(Clone, Debug)]
pub struct DesignedSpec {
    pub q: Mat,
    pub s: Vec<f64>,
    /// optional row pre-scaling: the model returns diag(1/w)·Q·S·Gᵀ so that
    /// W·Φ has the designed SVD up to rounding
    pub inv_w: Option<Vec<f64>>,
}

impl DesignedSpec {
    pub fn n(&self) -> usize {
        self.q.r
    }
    pub fn m(&self) -> usize {
        self.q.c
    }
    pub fn np(&self) -> usize {
        (self.m() - 1).max(1)
    }
    fn givens(m: usize, k: usize, th: f64, deriv: bool) -> Mat {
        let mut g = if deriv { Mat::zeros(m, m) } else { Mat::eye(m) };
        if k + 1 < m {
            let (c, s) = (th.cos(), th.sin());
            if deriv {
                g.set(k, k, -s);
                g.set(k, k + 1, -c);
                g.set(k + 1, k, c);
                g.set(k + 1, k + 1, -s);
            } else {
                g.set(k, k, c);
                g.set(k, k + 1, -s);
                g.set(k + 1, k, s);
                g.set(k + 1, k + 1, c);
            }
        }
        g
    }
    /// G(α) (or ∂G/∂α_d if `d` is given)
    pub fn g(&self, alpha: &[f64], d: Option<usize>) -> Mat {
        let m = self.m();
        let mut g = Mat::eye(m);
        for k in 0..self.np() {
            g = g.mul(&Self::givens(m, k, alpha[k], d == Some(k)));
        }
        g
    }
    pub fn phi(&self, alpha: &[f64], d: Option<usize>) -> Mat {
        let qs = Mat::from_fn(self.n(), self.m(), |i, j| self.q.at(i, j) * self.s[j]);
        let mut p = qs.mul(&self.g(alpha, d).t());
        if let Some(iw) = &self.inv_w {
            p = p.row_scale(iw);
        }
        p
    }
    pub fn to_json(&self) -> Value {
        json!({"designed": {"n": self.n(), "m": self.m(), "s": self.s, "q": self.q.d, "inv_w": self.inv_w}})
    }
}

#[derive(Clone, Debug)]
pub struct DesignedModel<T: Sc> {
    pub spec: DesignedSpec,
    pub params: DVector<T>,
}

impl<T: Sc> SeparableNonlinearModel for DesignedModel<T> {
    type ScalarType = T;
    type Error = ZooError;
    fn parameter_count(&self) -> usize {
        self.spec.np()
    }
    fn base_function_count(&self) -> usize {
        self.spec.m()
    }
    fn output_len(&self) -> usize {
        self.spec.n()
    }
    fn set_params(&mut self, parameters: OVector<T, Dyn>) -> Result<(), ZooError> {
        if parameters.len() != self.spec.np() {
            return Err(ZooError("wrong parameter count".into()));
        }
        self.params = parameters;
        Ok(())
    }
    fn params(&self) -> OVector<T, Dyn> {
        self.params.clone()
    }
    fn eval(&self) -> Result<OMatrix<T, Dyn, Dyn>, ZooError> {
        let a: Vec<f64> = self.params.iter().map(|v| v.w()).collect();
        Ok(crate::sc::dmat::<T>(&self.spec.phi(&a, None)))
    }
    fn eval_partial_deriv(&self, k: usize) -> Result<OMatrix<T, Dyn, Dyn>, ZooError> {
        if k >= self.spec.np() {
            return Err(ZooError("derivative index".into()));
        }
        let a: Vec<f64> = self.params.iter().map(|v| v.w()).collect();
        Ok(crate::sc::dmat::<T>(&self.spec.phi(&a, Some(k))))
    }
}

/// Z6: one-column model Φ = α·e_row (N rows). The single singular value is |α| exactly.
#[derive(Clone, Debug)]
pub struct OneColModel<T: Sc> {
    pub n: usize,
    pub row: usize,
    pub params: DVector<T>,
}

impl<T: Sc> SeparableNonlinearModel for OneColModel<T> {
    type ScalarType = T;
    type Error = ZooError;
    fn parameter_count(&self) -> usize {
        1
    }
    fn base_function_count(&self) -> usize {
        1
    }
    fn output_len(&self) -> usize {
        self.n
    }
    fn set_params(&mut self, parameters: OVector<T, Dyn>) -> Result<(), ZooError> {
        if parameters.len() != 1 {
            return Err(ZooError("wrong parameter count".into()));
        }
        self.params = parameters;
        Ok(())
    }
    fn params(&self) -> OVector<T, Dyn> {
        self.params.clone()
    }
    fn eval(&self) -> Result<OMatrix<T, Dyn, Dyn>, ZooError> {
        let mut m = DMatrix::<T>::from_element(self.n, 1, T::of(0.0));
        m[(self.row, 0)] = self.params[0];
        Ok(m)
    }
    fn eval_partial_deriv(&self, k: usize) -> Result<OMatrix<T, Dyn, Dyn>, ZooError> {
        if k >= 1 {
            return Err(ZooError("derivative index".into()));
        }
        let mut m = DMatrix::<T>::from_element(self.n, 1, T::of(0.0));
        m[(self.row, 0)] = T::of(1.0);
        Ok(m)
    }
}

/// Z8-like raw model: Φ and D_k are arbitrary tables chosen by the generator,
/// indexed by a small integer "state" derived from the parameter vector
/// (used for hostile IEEE-754 content and degenerate shapes). `eval` returns
/// `phi` with entries transformed as phi_ij * g(α) where g is chosen so that
/// hostile α propagate: value = base + α_0 * slope.
#[derive(Clone, Debug)]
pub struct TableModel<T: Sc> {
    pub n: usize,
    pub m: usize,
    pub p: usize,
    pub base: DMatrix<T>,
    pub slope: Vec<DMatrix<T>>,
    pub params: DVector<T>,
}

impl<T: Sc> TableModel<T> {
    pub fn phi_at(&self, a: &DVector<T>) -> DMatrix<T> {
        let mut out = self.base.clone();
        for k in 0..self.p {
            out += &self.slope[k] * a[k];
        }
        out
    }
}

impl<T: Sc> SeparableNonlinearModel for TableModel<T> {
    type ScalarType = T;
    type Error = ZooError;
    fn parameter_count(&self) -> usize {
        self.p
    }
    fn base_function_count(&self) -> usize {
        self.m
    }
    fn output_len(&self) -> usize {
        self.n
    }
    fn set_params(&mut self, parameters: OVector<T, Dyn>) -> Result<(), ZooError> {
        if parameters.len() != self.p {
            return Err(ZooError("wrong parameter count".into()));
        }
        self.params = parameters;
        Ok(())
    }
    fn params(&self) -> OVector<T, Dyn> {
        self.params.clone()
    }
    fn eval(&self) -> Result<OMatrix<T, Dyn, Dyn>, ZooError> {
        Ok(self.phi_at(&self.params))
    }
    fn eval_partial_deriv(&self, k: usize) -> Result<OMatrix<T, Dyn, Dyn>, ZooError> {
        if k >= self.p {
            return Err(ZooError("derivative index".into()));
        }
        Ok(self.slope[k].clone())
    }
}

/// The one model type every problem in the harness is built over.
pub enum AnyModel<T: Sc> {
    Built(SeparableModel<T>),
    Hand(HandModel<T>),
    Designed(DesignedModel<T>),
    OneCol(OneColModel<T>),
    Table(TableModel<T>),
    /// diag(w)·inner — used as the pre-scaled twin in C06
    RowScaled(Box<AnyModel<T>>, DVector<T>),
    /// values of the inner model, derivatives replaced by fixed tables (hostile derivatives next to
    /// finite values, used by C08)
    BadDeriv(Box<AnyModel<T>>, Vec<DMatrix<T>>),
    /// a model that follows the "compute everything in set_params" pattern without priming itself in
    /// its constructor: eval / eval_partial_deriv fail until set_params has been called once
    Lazy(Box<AnyModel<T>>, std::sync::atomic::AtomicBool),
}

impl<T: Sc> AnyModel<T> {
    pub fn kind(&self) -> &'static str {
        match self {
            AnyModel::Built(_) => "built",
            AnyModel::Hand(_) => "hand",
            AnyModel::Designed(_) => "designed",
            AnyModel::OneCol(_) => "onecol",
            AnyModel::Table(_) => "table",
            AnyModel::RowScaled(_, _) => "rowscaled",
            AnyModel::BadDeriv(_, _) => "bad-derivatives",
            AnyModel::Lazy(_, _) => "lazily primed",
        }
    }
}

fn ze<E: std::fmt::Display>(e: E) -> ZooError {
    ZooError(e.to_string())
}

fn scale_rows<T: Sc>(mut m: DMatrix<T>, w: &DVector<T>) -> DMatrix<T> {
    for mut col in m.column_iter_mut() {
        for i in 0..w.len() {
            col[i] = w[i] * col[i];
        }
    }
    m
}

impl<T: Sc> SeparableNonlinearModel for AnyModel<T> {
    type ScalarType = T;
    type Error = ZooError;
    fn parameter_count(&self) -> usize {
        match self {
            AnyModel::Built(m) => m.parameter_count(),
            AnyModel::Hand(m) => m.parameter_count(),
            AnyModel::Designed(m) => m.parameter_count(),
            AnyModel::OneCol(m) => m.parameter_count(),
            AnyModel::Table(m) => m.parameter_count(),
            AnyModel::RowScaled(m, _) => m.parameter_count(),
            AnyModel::BadDeriv(m, _) => m.parameter_count(),
            AnyModel::Lazy(m, _) => m.parameter_count(),
        }
    }
    fn base_function_count(&self) -> usize {
        match self {
            AnyModel::Built(m) => m.base_function_count(),
            AnyModel::Hand(m) => m.base_function_count(),
            AnyModel::Designed(m) => m.base_function_count(),
            AnyModel::OneCol(m) => m.base_function_count(),
            AnyModel::Table(m) => m.base_function_count(),
            AnyModel::RowScaled(m, _) => m.base_function_count(),
            AnyModel::BadDeriv(m, _) => m.base_function_count(),
            AnyModel::Lazy(m, _) => m.base_function_count(),
        }
    }
    fn output_len(&self) -> usize {
        match self {
            AnyModel::Built(m) => m.output_len(),
            AnyModel::Hand(m) => m.output_len(),
            AnyModel::Designed(m) => m.output_len(),
            AnyModel::OneCol(m) => m.output_len(),
            AnyModel::Table(m) => m.output_len(),
            AnyModel::RowScaled(m, _) => m.output_len(),
            AnyModel::BadDeriv(m, _) => m.output_len(),
            AnyModel::Lazy(m, _) => m.output_len(),
        }
    }
    fn set_params(&mut self, p: OVector<T, Dyn>) -> Result<(), ZooError> {
        match self {
            AnyModel::Built(m) => m.set_params(p).map_err(ze),
            AnyModel::Hand(m) => m.set_params(p),
            AnyModel::Designed(m) => m.set_params(p),
            AnyModel::OneCol(m) => m.set_params(p),
            AnyModel::Table(m) => m.set_params(p),
            AnyModel::RowScaled(m, _) => m.set_params(p),
            AnyModel::BadDeriv(m, _) => m.set_params(p),
            AnyModel::Lazy(m, primed) => {
                let r = m.set_params(p);
                if r.is_ok() {
                    primed.store(true, std::sync::atomic::Ordering::SeqCst);
                }
                r
            }
        }
    }
    fn params(&self) -> OVector<T, Dyn> {
        match self {
            AnyModel::Built(m) => m.params(),
            AnyModel::Hand(m) => m.params(),
            AnyModel::Designed(m) => m.params(),
            AnyModel::OneCol(m) => m.params(),
            AnyModel::Table(m) => m.params(),
            AnyModel::RowScaled(m, _) => m.params(),
            AnyModel::BadDeriv(m, _) => m.params(),
            AnyModel::Lazy(m, _) => m.params(),
        }
    }
    fn eval(&self) -> Result<OMatrix<T, Dyn, Dyn>, ZooError> {
        match self {
            AnyModel::Built(m) => m.eval().map_err(ze),
            AnyModel::Hand(m) => m.eval(),
            AnyModel::Designed(m) => m.eval(),
            AnyModel::OneCol(m) => m.eval(),
            AnyModel::Table(m) => m.eval(),
            AnyModel::RowScaled(m, w) => m.eval().map(|phi| scale_rows(phi, w)),
            AnyModel::BadDeriv(m, _) => m.eval(),
            AnyModel::Lazy(m, primed) => {
                if primed.load(std::sync::atomic::Ordering::SeqCst) {
                    m.eval()
                } else {
                    Err(ZooError("set_params has not been called yet".into()))
                }
            }
        }
    }
    fn eval_partial_deriv(&self, k: usize) -> Result<OMatrix<T, Dyn, Dyn>, ZooError> {
        match self {
            AnyModel::Built(m) => m.eval_partial_deriv(k).map_err(ze),
            AnyModel::Hand(m) => m.eval_partial_deriv(k),
            AnyModel::Designed(m) => m.eval_partial_deriv(k),
            AnyModel::OneCol(m) => m.eval_partial_deriv(k),
            AnyModel::Table(m) => m.eval_partial_deriv(k),
            AnyModel::RowScaled(m, w) => m.eval_partial_deriv(k).map(|d| scale_rows(d, w)),
            AnyModel::BadDeriv(_, d) => d.get(k).cloned().ok_or_else(|| ZooError("derivative index".into())),
            AnyModel::Lazy(m, primed) => {
                if primed.load(std::sync::atomic::Ordering::SeqCst) {
                    m.eval_partial_deriv(k)
                } else {
                    Err(ZooError("set_params has not been called yet".into()))
                }
            }
        }
    }
}

// ---------------------------------------------------------------------------
// generators for zoo specs
// ---------------------------------------------------------------------------

use crate::rng::Rng;

pub fn grid_r(rng: &mut Rng, n: usize, lo: f64, hi_lo: f64, hi_hi: f64, jitter_p: f64) -> Vec<f64> {
    let hi = rng.range(hi_lo, hi_hi);
    let jitter = rng.chance(jitter_p);
    grid(rng, n, lo, hi, jitter)
}

pub fn grid(rng: &mut Rng, n: usize, lo: f64, hi: f64, jitter: bool) -> Vec<f64> {
    let mut x: Vec<f64> = (0..n)
        .map(|i| {
            let t = if n > 1 { i as f64 / (n - 1) as f64 } else { 0.5 };
            lo + (hi - lo) * t
        })
        .collect();
    if jitter && n > 2 {
        let h = (hi - lo) / (n - 1) as f64;
        for v in x.iter_mut() {
            *v += rng.range(-0.3, 0.3) * h;
        }
    }
    x
}

/// Z1: sum of `k` exponential decays (+ optional constant)
pub fn z1(x: Vec<f64>, k: usize, offset: bool) -> ModelSpec {
    let mut basis: Vec<Basis> = (0..k).map(Basis::Exp).collect();
    if offset {
        basis.push(Basis::Const);
    }
    ModelSpec { x, basis, np: k }
}

/// Z2: O'Leary–Rust: exp(-a1 x)cos(a2 x), exp(-a0 x)cos(a1 x)  (a1 shared)
pub fn z2(x: Vec<f64>) -> ModelSpec {
    ModelSpec {
        x,
        basis: vec![Basis::ExpCos(1, 2), Basis::ExpCos(0, 1)],
        np: 3,
    }
}

/// Z3: Gaussian peak + decay + offset
pub fn z3(x: Vec<f64>) -> ModelSpec {
    ModelSpec {
        x,
        basis: vec![Basis::Gauss(1, 2), Basis::Exp(0), Basis::Const],
        np: 3,
    }
}

/// Z4: rational functions, no transcendental calls
pub fn z4(x: Vec<f64>, k: usize) -> ModelSpec {
    let basis: Vec<Basis> = (0..k)
        .map(|i| if i % 2 == 0 { Basis::Rat1(i) } else { Basis::Rat2(i) })
        .chain(std::iter::once(Basis::Const))
        .collect();
    ModelSpec { x, basis, np: k }
}

/// a random spec from Z1..Z4 together with a "reasonable" α (well inside the
/// domain where all functions are finite) and a scale for perturbing it
pub fn random_zoo(rng: &mut Rng, nmax: usize) -> (ModelSpec, Vec<f64>) {
    let fam = rng.below(5);
    match fam {
        0 | 1 => {
            let k = rng.int(1, 4);
            let offset = rng.chance(0.5);
            let m = k + offset as usize;
            let n = rng.int(m.max(2), nmax.max(m + 1));
            let x = grid_r(rng, n, 0.0, 2.0, 12.0, 0.3);
            let mut taus: Vec<f64> = Vec::new();
            let mut t = rng.range(0.3, 1.5);
            for _ in 0..k {
                taus.push(t);
                t *= rng.range(1.6, 4.0);
            }
            rng.shuffle(&mut taus);
            (z1(x, k, offset), taus)
        }
        2 => {
            let n = rng.int(4, nmax.max(5));
            let x = grid_r(rng, n, 0.0, 1.0, 4.0, 0.3);
            let a = vec![rng.range(0.2, 1.5), rng.range(0.5, 3.0), rng.range(1.0, 6.0)];
            (z2(x), a)
        }
        3 => {
            let n = rng.int(5, nmax.max(6));
            let hi = rng.range(4.0, 10.0);
            let x = grid_r(rng, n, 0.0, hi, hi, 0.3);
            let a = vec![
                rng.range(0.5, 3.0),
                rng.range(0.3 * hi, 0.7 * hi),
                rng.range(0.08 * hi, 0.25 * hi),
            ];
            (z3(x), a)
        }
        _ => {
            let k = rng.int(1, 3);
            let n = rng.int((k + 1).max(3), nmax.max(k + 2));
            let x = grid_r(rng, n, 0.1, 2.0, 8.0, 0.3);
            let a: Vec<f64> = (0..k).map(|i| rng.range(0.2, 1.0) * (1.0 + 1.7 * i as f64)).collect();
            (z4(x, k), a)
        }
    }
}

/// self test: analytic derivatives agree with central differences
pub fn selftest() -> Result<(), String> {
    let mut rng = Rng::new(99);
    for _ in 0..300 {
        let (spec, a) = random_zoo(&mut rng, 12);
        if !spec.valid() {
            return Err(format!("invalid zoo spec {:?}", spec));
        }
        for k in 0..spec.np {
            let h = 1e-6 * a[k].abs().max(1.0);
            let mut ap = a.clone();
            ap[k] += h;
            let mut am = a.clone();
            am[k] -= h;
            let fd = spec.phi64::<f64>(&ap).sub(&spec.phi64::<f64>(&am)).scale(0.5 / h);
            let an = spec.dphi64::<f64>(&a, k);
            let err = fd.sub(&an).max_abs();
            if err > 1e-6 * (1.0 + an.max_abs()) {
                return Err(format!("zoo derivative mismatch {:?} k={k} err={err}", spec.basis));
            }
        }
    }
    // designed model derivative
    for _ in 0..50 {
        let n = rng.int(3, 9);
        let m = rng.int(2, n.min(5));
        let q = crate::la::orthonormalize(&Mat::from_fn(n, m, |_, _| rng.normal()));
        let s: Vec<f64> = (0..m).map(|_| rng.range(0.1, 2.0)).collect();
        let d = DesignedSpec { q, s, inv_w: None };
        let a: Vec<f64> = (0..d.np()).map(|_| rng.range(-3.0, 3.0)).collect();
        for k in 0..d.np() {
            let h = 1e-6;
            let mut ap = a.clone();
            ap[k] += h;
            let mut am = a.clone();
            am[k] -= h;
            let fd = d.phi(&ap, None).sub(&d.phi(&am, None)).scale(0.5 / h);
            let err = fd.sub(&d.phi(&a, Some(k))).max_abs();
            if err > 1e-7 {
                return Err(format!("designed derivative mismatch {err}"));
            }
        }
        let sv = crate::la::singular_values(&d.phi(&a, None));
        let mut want = d.s.clone();
        want.sort_by(|a, b| b.partial_cmp(a).unwrap());
        for i in 0..m {
            if (sv[i] - want[i]).abs() > 1e-13 {
                return Err("designed singular values".into());
            }
        }
    }
    Ok(())
}
