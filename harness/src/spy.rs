//! ModelSpy: a `SeparableNonlinearModel` wrapper that records call/return
//! events, counts calls, injects faults and delays. Its own state is atomics
//! plus one mutex-protected append-only log, so the monitor is not itself a
//! source of races.

use crate::sc::Sc;
use crate::zoo::{AnyModel, ZooError};
use nalgebra::{Dyn, OMatrix, OVector};
use std::sync::atomic::{AtomicBool, AtomicI64, AtomicU64, Ordering::SeqCst};
use std::sync::{Arc, Mutex};
use varpro::prelude::*;

#[derive(Clone, Copy, Debug, PartialEq, Eq, Hash, PartialOrd, Ord)]
pub enum Call {
    SetParams,
    Eval,
    Deriv(usize),
}

#[derive(Clone, Debug)]
pub struct Event {
    pub seq: u64,
    /// index of this model call among all fallible model calls (call and return share it)
    pub idx: u64,
    pub call: Call,
    /// false: call event, true: return event
    pub ret: bool,
    /// (return events) whether the call succeeded
    pub ok: bool,
    /// (return events) whether the failure was injected by the spy
    pub injected: bool,
    /// rayon worker index + 1, or 0 outside a pool
    pub thread: u32,
    /// (SetParams) bits of the parameter vector
    pub alpha: Vec<u64>,
}

pub struct SpyCtl {
    pub log_on: AtomicBool,
    pub log: Mutex<Vec<Event>>,
    pub seq: AtomicU64,
    pub n_calls: AtomicU64,
    pub n_set: AtomicU64,
    pub n_eval: AtomicU64,
    pub n_deriv: AtomicU64,
    /// index (in n_calls numbering) of the call to fail; -1 = none
    pub fail_at: AtomicI64,
    pub fail_persistent: AtomicBool,
    /// every derivative call for this parameter index fails while set; -1 = none
    /// (call indices are schedule dependent in a parallel Jacobian, the parameter index is not)
    pub fail_deriv_k: AtomicI64,
    /// number of failures injected so far
    pub n_injected: AtomicU64,
    /// 0 = no delays; otherwise seed of the delay schedule
    pub delay_seed: AtomicU64,
    /// max spin iterations (×1000)
    pub delay_max: AtomicU64,
}

impl SpyCtl {
    pub fn new() -> Arc<SpyCtl> {
        Arc::new(SpyCtl {
            log_on: AtomicBool::new(false),
            log: Mutex::new(Vec::new()),
            seq: AtomicU64::new(0),
            n_calls: AtomicU64::new(0),
            n_set: AtomicU64::new(0),
            n_eval: AtomicU64::new(0),
            n_deriv: AtomicU64::new(0),
            fail_at: AtomicI64::new(-1),
            fail_persistent: AtomicBool::new(false),
            fail_deriv_k: AtomicI64::new(-1),
            n_injected: AtomicU64::new(0),
            delay_seed: AtomicU64::new(0),
            delay_max: AtomicU64::new(0),
        })
    }
    pub fn logging() -> Arc<SpyCtl> {
        let c = SpyCtl::new();
        c.log_on.store(true, SeqCst);
        c
    }
    pub fn set_fault(&self, at: i64, persistent: bool) {
        self.fail_at.store(at, SeqCst);
        self.fail_persistent.store(persistent, SeqCst);
    }
    pub fn calls(&self) -> u64 {
        self.n_calls.load(SeqCst)
    }
    pub fn take_log(&self) -> Vec<Event> {
        std::mem::take(&mut *self.log.lock().unwrap())
    }
    pub fn log_len(&self) -> usize {
        self.log.lock().unwrap().len()
    }
    pub fn snapshot_log(&self) -> Vec<Event> {
        self.log.lock().unwrap().clone()
    }
    fn should_fail(&self, idx: u64) -> bool {
        let at = self.fail_at.load(SeqCst);
        if at < 0 {
            return false;
        }
        let at = at as u64;
        idx == at || (self.fail_persistent.load(SeqCst) && idx > at)
    }
    fn thread() -> u32 {
        rayon::current_thread_index().map(|i| i as u32 + 1).unwrap_or(0)
    }
    fn push(&self, idx: u64, call: Call, ret: bool, ok: bool, injected: bool, alpha: Vec<u64>) {
        if !self.log_on.load(SeqCst) {
            return;
        }
        let seq = self.seq.fetch_add(1, SeqCst);
        self.log.lock().unwrap().push(Event {
            seq,
            idx,
            call,
            ret,
            ok,
            injected,
            thread: Self::thread(),
            alpha,
        });
    }
    fn delay(&self, k: usize, idx: u64) {
        let seed = self.delay_seed.load(SeqCst);
        if seed == 0 {
            return;
        }
        let max = self.delay_max.load(SeqCst).max(1);
        let h = crate::rng::hash_u64s([seed, k as u64, idx]);
        let mode = h % 4;
        let spins = (h >> 8) % max;
        match mode {
            0 => {}
            1 => std::thread::yield_now(),
            _ => {
                let mut acc = 0u64;
                for i in 0..spins * 1000 {
                    acc = acc.wrapping_add(std::hint::black_box(i));
                }
                std::hint::black_box(acc);
            }
        }
    }
}

pub struct Spy<T: Sc> {
    pub inner: AnyModel<T>,
    pub ctl: Arc<SpyCtl>,
}

impl<T: Sc> Spy<T> {
    pub fn new(inner: AnyModel<T>, ctl: Arc<SpyCtl>) -> Self {
        Spy { inner, ctl }
    }
}

impl<T: Sc> SeparableNonlinearModel for Spy<T> {
    type ScalarType = T;
    type Error = ZooError;
    fn parameter_count(&self) -> usize {
        self.inner.parameter_count()
    }
    fn base_function_count(&self) -> usize {
        self.inner.base_function_count()
    }
    fn output_len(&self) -> usize {
        self.inner.output_len()
    }
    fn params(&self) -> OVector<T, Dyn> {
        self.inner.params()
    }
    fn set_params(&mut self, p: OVector<T, Dyn>) -> Result<(), ZooError> {
        let c = &self.ctl;
        let idx = c.n_calls.fetch_add(1, SeqCst);
        c.n_set.fetch_add(1, SeqCst);
        let bits: Vec<u64> = if c.log_on.load(SeqCst) {
            p.iter().map(|v| v.bits()).collect()
        } else {
            Vec::new()
        };
        c.push(idx, Call::SetParams, false, true, false, bits.clone());
        if c.should_fail(idx) {
            c.n_injected.fetch_add(1, SeqCst);
            c.push(idx, Call::SetParams, true, false, true, bits);
            return Err(ZooError("injected set_params failure".into()));
        }
        let r = self.inner.set_params(p);
        c.push(idx, Call::SetParams, true, r.is_ok(), false, bits);
        r
    }
    fn eval(&self) -> Result<OMatrix<T, Dyn, Dyn>, ZooError> {
        let c = &self.ctl;
        let idx = c.n_calls.fetch_add(1, SeqCst);
        c.n_eval.fetch_add(1, SeqCst);
        c.push(idx, Call::Eval, false, true, false, Vec::new());
        if c.should_fail(idx) {
            c.n_injected.fetch_add(1, SeqCst);
            c.push(idx, Call::Eval, true, false, true, Vec::new());
            return Err(ZooError("injected eval failure".into()));
        }
        let r = self.inner.eval();
        c.push(idx, Call::Eval, true, r.is_ok(), false, Vec::new());
        r
    }
    fn eval_partial_deriv(&self, k: usize) -> Result<OMatrix<T, Dyn, Dyn>, ZooError> {
        let c = &self.ctl;
        let idx = c.n_calls.fetch_add(1, SeqCst);
        c.n_deriv.fetch_add(1, SeqCst);
        c.push(idx, Call::Deriv(k), false, true, false, Vec::new());
        c.delay(k, idx);
        if c.should_fail(idx) || c.fail_deriv_k.load(SeqCst) == k as i64 {
            c.n_injected.fetch_add(1, SeqCst);
            c.push(idx, Call::Deriv(k), true, false, true, Vec::new());
            return Err(ZooError("injected derivative failure".into()));
        }
        let r = self.inner.eval_partial_deriv(k);
        c.delay(k + 1000, idx);
        c.push(idx, Call::Deriv(k), true, r.is_ok(), false, Vec::new());
        r
    }
}
