//! Case runner, verdict bookkeeping, evidence, replay files, known findings.

use crate::rng::Rng;
use serde_json::{json, Map, Value};
use std::collections::{BTreeMap, BTreeSet, HashSet};
use std::sync::atomic::{AtomicU64, Ordering::SeqCst};
use std::sync::Mutex;
use std::time::Instant;

pub const VERIF_DIR: &str = "/verif";

#[derive(Clone, Copy, Debug, PartialEq, Eq)]
pub enum Tier {
    Quick,
    Thorough,
}
impl Tier {
    pub fn name(&self) -> &'static str {
        match self {
            Tier::Quick => "quick",
            Tier::Thorough => "thorough",
        }
    }
    pub fn pick<V>(&self, q: V, t: V) -> V {
        match self {
            Tier::Quick => q,
            Tier::Thorough => t,
        }
    }
}

#[derive(Clone, Debug)]
pub struct Violation {
    pub stream: String,
    pub case: u64,
    pub what: String,
    pub detail: Value,
}

#[derive(Clone, Debug)]
pub struct KnownHit {
    pub stream: String,
    pub case: u64,
    /// signature to be matched against known_findings.jsonl
    pub signature: String,
    pub what: String,
    pub detail: Value,
}

#[derive(Default, Debug)]
pub struct CaseOut {
    pub evals: u64,
    pub nontrivial: Vec<u64>,
    /// non-trivial cases that are distinct by construction (enumerations), counted rather than hashed
    pub nontrivial_count: u64,
    pub violations: Vec<Violation>,
    pub known: Vec<KnownHit>,
    pub counters: BTreeMap<String, u64>,
    pub ratios: BTreeMap<String, f64>,
    pub sets: BTreeMap<String, BTreeSet<String>>,
    pub samples: Vec<Value>,
    pub inconclusive: BTreeMap<String, u64>,
    pub trace: Vec<String>,
    pub verbose: bool,
}

impl CaseOut {
    pub fn count(&mut self, k: &str) {
        *self.counters.entry(k.to_string()).or_insert(0) += 1;
    }
    pub fn add(&mut self, k: &str, n: u64) {
        *self.counters.entry(k.to_string()).or_insert(0) += n;
    }
    pub fn ratio(&mut self, k: &str, r: f64) {
        let e = self.ratios.entry(k.to_string()).or_insert(0.0);
        if r > *e || r.is_nan() {
            *e = r;
        }
    }
    pub fn seen(&mut self, set: &str, item: impl Into<String>) {
        self.sets.entry(set.to_string()).or_default().insert(item.into());
    }
    pub fn inconcl(&mut self, why: &str) {
        *self.inconclusive.entry(why.to_string()).or_insert(0) += 1;
    }
    pub fn sample(&mut self, v: Value) {
        if self.samples.len() < 2 {
            self.samples.push(v);
        }
    }
    pub fn log(&mut self, s: impl Into<String>) {
        if self.verbose {
            self.trace.push(s.into());
        }
    }
}

pub struct Ctx {
    pub prop: String,
    pub tier: Tier,
    pub seed: u64,
    pub threads: usize,
    pub replay: Option<(String, u64)>,
    pub start: Instant,
    pub total: Mutex<CaseOut>,
    pub distinct: Mutex<HashSet<u64>>,
    pub extra: Mutex<Map<String, Value>>,
    pub streams: Mutex<Vec<Value>>,
    pub harness_errors: Mutex<Vec<String>>,
    pub level: String,
    pub rule: Mutex<String>,
    pub assumptions: Mutex<Vec<String>>,
    pub exhaustive: Mutex<Option<bool>>,
}

thread_local! {
    static LAST_PANIC: std::cell::RefCell<Option<(String, String)>> = const { std::cell::RefCell::new(None) };
    pub static QUIET_PANICS: std::cell::Cell<bool> = const { std::cell::Cell::new(false) };
}

pub fn install_panic_hook() {
    let default = std::panic::take_hook();
    std::panic::set_hook(Box::new(move |info| {
        let loc = info
            .location()
            .map(|l| format!("{}:{}", l.file(), l.line()))
            .unwrap_or_default();
        let msg = if let Some(s) = info.payload().downcast_ref::<&str>() {
            s.to_string()
        } else if let Some(s) = info.payload().downcast_ref::<String>() {
            s.clone()
        } else {
            "<non-string panic>".to_string()
        };
        LAST_PANIC.with(|p| *p.borrow_mut() = Some((loc.clone(), msg.clone())));
        if !QUIET_PANICS.with(|q| q.get()) {
            default(info);
        }
    }));
}

pub fn take_last_panic() -> Option<(String, String)> {
    LAST_PANIC.with(|p| p.borrow_mut().take())
}

/// run a closure catching panics; returns Err((location, message)) on panic
pub fn guarded<R>(f: impl FnOnce() -> R) -> Result<R, (String, String)> {
    let prev = QUIET_PANICS.with(|q| q.replace(true));
    let r = std::panic::catch_unwind(std::panic::AssertUnwindSafe(f));
    QUIET_PANICS.with(|q| q.set(prev));
    match r {
        Ok(v) => Ok(v),
        Err(_) => Err(take_last_panic().unwrap_or_default()),
    }
}

/// does a panic location lie in the subject (varpro or the libraries it drives)?
pub fn panic_in_subject(loc: &str) -> bool {
    !loc.contains("/verif/") && !loc.starts_with("src/")
}

impl Ctx {
    pub fn new(prop: &str, tier: Tier, seed: u64, replay: Option<(String, u64)>, level: &str) -> Ctx {
        let threads = std::env::var("VERIF_THREADS")
            .ok()
            .and_then(|s| s.parse().ok())
            .unwrap_or_else(|| std::thread::available_parallelism().map(|n| n.get()).unwrap_or(4).min(16));
        Ctx {
            prop: prop.to_string(),
            tier,
            seed,
            threads,
            replay,
            start: Instant::now(),
            total: Mutex::new(CaseOut::default()),
            distinct: Mutex::new(HashSet::new()),
            extra: Mutex::new(Map::new()),
            streams: Mutex::new(Vec::new()),
            harness_errors: Mutex::new(Vec::new()),
            level: level.to_string(),
            rule: Mutex::new(String::new()),
            assumptions: Mutex::new(Vec::new()),
            exhaustive: Mutex::new(None),
        }
    }
    pub fn rule(&self, s: &str) {
        let mut r = self.rule.lock().unwrap();
        if !r.is_empty() {
            r.push_str(" | ");
        }
        r.push_str(s);
    }
    pub fn assume(&self, s: &str) {
        self.assumptions.lock().unwrap().push(s.to_string());
    }
    pub fn extra(&self, k: &str, v: Value) {
        self.extra.lock().unwrap().insert(k.to_string(), v);
    }
    pub fn elapsed(&self) -> f64 {
        self.start.elapsed().as_secs_f64()
    }
    fn merge(&self, c: CaseOut) {
        let mut t = self.total.lock().unwrap();
        t.evals += c.evals;
        t.nontrivial_count += c.nontrivial_count;
        {
            let mut d = self.distinct.lock().unwrap();
            for h in c.nontrivial {
                d.insert(h);
            }
        }
        t.violations.extend(c.violations);
        t.known.extend(c.known);
        for (k, v) in c.counters {
            *t.counters.entry(k).or_insert(0) += v;
        }
        for (k, v) in c.ratios {
            let e = t.ratios.entry(k).or_insert(0.0);
            if v > *e || v.is_nan() {
                *e = v;
            }
        }
        for (k, v) in c.sets {
            t.sets.entry(k).or_default().extend(v);
        }
        for (k, v) in c.inconclusive {
            *t.inconclusive.entry(k).or_insert(0) += v;
        }
        for s in c.samples {
            if t.samples.len() < 6 {
                t.samples.push(s);
            }
        }
        for l in c.trace {
            println!("  {l}");
        }
    }
    pub fn merge_public(&self, c: CaseOut) {
        self.merge(c)
    }

    /// Run `n` cases of stream `stream` in parallel; each case gets its own PRNG
    /// keyed by (seed, property/stream, case). `budget_s` bounds wall time: cases
    /// not started by then are skipped and counted.
    pub fn run_cases<F>(&self, stream: &str, n: u64, budget_s: f64, f: F)
    where
        F: Fn(&mut Rng, u64, &mut CaseOut) + Sync,
    {
        let key = format!("{}/{}", self.prop, stream);
        if let Some((rs, rc)) = &self.replay {
            if rs != stream {
                return;
            }
            let mut out = CaseOut { verbose: true, ..Default::default() };
            let mut rng = Rng::keyed(self.seed, &key, *rc);
            println!("replaying {} stream={} case={} seed={}", self.prop, stream, rc, self.seed);
            match guarded(|| f(&mut rng, *rc, &mut out)) {
                Ok(()) => {}
                Err((loc, msg)) => self.panic_to_verdict(stream, *rc, loc, msg, &mut out),
            }
            for v in &out.violations {
                println!("  violation: {}\n  detail: {}", v.what, v.detail);
            }
            for k in &out.known {
                println!("  known-finding candidate: {} [{}]", k.what, k.signature);
            }
            if out.violations.is_empty() && out.known.is_empty() {
                println!("  no violation reproduced on this tree");
            }
            self.merge(out);
            return;
        }
        let next = AtomicU64::new(0);
        let done = AtomicU64::new(0);
        let t0 = Instant::now();
        let nthreads = self.threads.max(1).min(n.max(1) as usize);
        std::thread::scope(|s| {
            for _ in 0..nthreads {
                s.spawn(|| loop {
                    let i = next.fetch_add(1, SeqCst);
                    if i >= n {
                        break;
                    }
                    if t0.elapsed().as_secs_f64() > budget_s {
                        break;
                    }
                    let mut out = CaseOut::default();
                    let mut rng = Rng::keyed(self.seed, &key, i);
                    match guarded(|| f(&mut rng, i, &mut out)) {
                        Ok(()) => {}
                        Err((loc, msg)) => self.panic_to_verdict(stream, i, loc, msg, &mut out),
                    }
                    done.fetch_add(1, SeqCst);
                    self.merge(out);
                });
            }
        });
        let d = done.load(SeqCst);
        self.streams.lock().unwrap().push(json!({"stream": stream, "planned": n, "executed": d,
            "wall_s": t0.elapsed().as_secs_f64()}));
    }

    fn panic_to_verdict(&self, stream: &str, case: u64, loc: String, msg: String, out: &mut CaseOut) {
        if panic_in_subject(&loc) {
            out.violations.push(Violation {
                stream: stream.to_string(),
                case,
                what: format!("panic in the subject at {loc}: {msg}"),
                detail: json!({"location": loc, "message": msg}),
            });
        } else {
            self.harness_errors
                .lock()
                .unwrap()
                .push(format!("harness panic in {stream}#{case} at {loc}: {msg}"));
        }
    }

    pub fn harness_error(&self, s: String) {
        self.harness_errors.lock().unwrap().push(s);
    }

    /// write evidence, print verdict lines, return the process exit code
    pub fn finish(&self) -> i32 {
        let t = self.total.lock().unwrap();
        let distinct = self.distinct.lock().unwrap().len() as u64 + t.nontrivial_count;
        let known_file = load_known_findings();
        let mut exit = 0;
        let mut violations: Vec<&Violation> = t.violations.iter().collect();
        violations.sort_by(|a, b| (a.stream.clone(), a.case).cmp(&(b.stream.clone(), b.case)));

        // known findings: each hit must match a listed signature, else it is a violation
        let mut known_lines: BTreeMap<String, (String, u64)> = BTreeMap::new();
        let mut unlisted: Vec<Violation> = Vec::new();
        for k in &t.known {
            let listed = known_file.iter().find(|e| {
                e["status"] == "known"
                    && e["property"].as_str() == Some(self.prop.as_str())
                    && e["signature"].as_str().map(|s| k.signature.starts_with(s) || s == k.signature).unwrap_or(false)
            });
            match listed {
                Some(e) => {
                    let what = e["what"].as_str().unwrap_or("").to_string();
                    let ent = known_lines.entry(e["signature"].as_str().unwrap().to_string()).or_insert((what, 0));
                    ent.1 += 1;
                }
                None => unlisted.push(Violation {
                    stream: k.stream.clone(),
                    case: k.case,
                    what: format!("{} (signature {} is not in known_findings.jsonl)", k.what, k.signature),
                    detail: k.detail.clone(),
                }),
            }
        }
        for (sig, (what, n)) in &known_lines {
            println!("KNOWN-FINDING: property={} {} [signature={} occurrences={}]", self.prop, what, sig, n);
        }
        let mut all_v: Vec<Violation> = violations.into_iter().cloned().collect();
        all_v.extend(unlisted);
        let nviol = all_v.len();
        if self.replay.is_none() {
            let _ = std::fs::create_dir_all(format!("{VERIF_DIR}/replays"));
            for (i, v) in all_v.iter().enumerate() {
                if i >= 20 {
                    println!("... {} more violations not written", nviol - 20);
                    break;
                }
                let path = format!(
                    "{VERIF_DIR}/replays/{}-{}-{}-{}-{}.json",
                    self.prop,
                    self.tier.name(),
                    self.seed,
                    v.stream,
                    v.case
                );
                let body = json!({"property": self.prop, "tier": self.tier.name(), "seed": self.seed,
                    "stream": v.stream, "case": v.case, "what": v.what, "detail": v.detail});
                let _ = std::fs::write(&path, serde_json::to_string_pretty(&body).unwrap());
                println!("VIOLATION property={} replay={}", self.prop, path);
                println!("  {}", v.what);
            }
        } else {
            for v in &all_v {
                println!("VIOLATION property={} replay=(replayed) {}", self.prop, v.what);
            }
        }
        if nviol > 0 {
            exit = 1;
            // summary of violation kinds (digits masked), so that a flood is readable
            let mut kinds: BTreeMap<String, u64> = BTreeMap::new();
            for v in &all_v {
                let mut k = String::new();
                let mut in_num = false;
                for c in v.what.chars() {
                    if c.is_ascii_digit() {
                        if !in_num {
                            k.push('#');
                        }
                        in_num = true;
                    } else if in_num && (c == '.' || c == 'e' || c == '-' || c == '+') {
                    } else {
                        in_num = false;
                        k.push(c);
                    }
                    if k.len() > 140 {
                        break;
                    }
                }
                *kinds.entry(k).or_insert(0) += 1;
            }
            for (k, n) in kinds.iter() {
                println!("  violation kind x{n}: {k}");
            }
        }
        let herr = self.harness_errors.lock().unwrap();
        for e in herr.iter() {
            eprintln!("HARNESS-ERROR: {e}");
        }
        if !herr.is_empty() && exit == 0 {
            exit = 2;
        }
        // a run that observed nothing is broken, not passing
        if self.replay.is_none() && (t.evals == 0 || distinct < 2) && exit == 0 {
            eprintln!("HARNESS-ERROR: the monitors observed nothing (evaluations={}, distinct non-trivial={})", t.evals, distinct);
            exit = 2;
        }

        let mut cov = Map::new();
        cov.insert("evaluations".into(), json!(t.evals));
        cov.insert("distinct_nontrivial".into(), json!(distinct));
        cov.insert("rule".into(), json!(self.rule.lock().unwrap().clone()));
        cov.insert("samples".into(), Value::Array(t.samples.clone()));
        if let Some(e) = *self.exhaustive.lock().unwrap() {
            cov.insert("exhaustive".into(), json!(e));
        }
        cov.insert("counters".into(), json!(t.counters));
        cov.insert("worst_error_over_tolerance".into(), json!(t.ratios.iter().map(|(k, v)| (k.clone(), if v.is_finite() { json!(v) } else { json!(format!("{v}")) })).collect::<Map<String, Value>>()));
        let mut seen = Map::new();
        for (k, v) in t.sets.iter() {
            if v.len() > 40 {
                seen.insert(k.clone(), json!({"count": v.len(), "first": v.iter().take(8).collect::<Vec<_>>()}));
            } else {
                seen.insert(k.clone(), json!(v));
            }
        }
        cov.insert("distinct_seen".into(), Value::Object(seen));
        cov.insert("inconclusive".into(), json!(t.inconclusive));
        cov.insert("streams".into(), Value::Array(self.streams.lock().unwrap().clone()));
        cov.insert("known_findings_hit".into(), json!(known_lines.iter().map(|(k, v)| (k.clone(), json!(v.1))).collect::<Map<String, Value>>()));
        for (k, v) in self.extra.lock().unwrap().iter() {
            cov.insert(k.clone(), v.clone());
        }
        let ev = json!({
            "property_id": self.prop,
            "tier": self.tier.name(),
            "seed": self.seed,
            "level": self.level,
            "coverage": Value::Object(cov),
            "assumptions": self.assumptions.lock().unwrap().clone(),
            "wall_s": self.elapsed(),
            "violations": nviol,
        });
        if self.replay.is_none() {
            let _ = std::fs::create_dir_all(format!("{VERIF_DIR}/evidence"));
            let path = format!("{VERIF_DIR}/evidence/{}.json", self.prop);
            if let Err(e) = std::fs::write(&path, serde_json::to_string_pretty(&ev).unwrap()) {
                eprintln!("HARNESS-ERROR: cannot write evidence: {e}");
                if exit == 0 {
                    exit = 2;
                }
            }
        }
        println!(
            "{} {} seed={} evaluations={} distinct_nontrivial={} violations={} known={} inconclusive={} wall={:.1}s",
            self.prop,
            self.tier.name(),
            self.seed,
            t.evals,
            distinct,
            nviol,
            t.known.len(),
            t.inconclusive.values().sum::<u64>(),
            self.elapsed()
        );
        exit
    }
}

pub fn load_known_findings() -> Vec<Value> {
    let path = format!("{VERIF_DIR}/known_findings.jsonl");
    let mut v = Vec::new();
    if let Ok(s) = std::fs::read_to_string(path) {
        for line in s.lines() {
            let line = line.trim();
            if line.is_empty() || line.starts_with('#') {
                continue;
            }
            if let Ok(j) = serde_json::from_str::<Value>(line) {
                v.push(j);
            }
        }
    }
    v
}

pub fn violation(out: &mut CaseOut, stream: &str, case: u64, what: impl Into<String>, detail: Value) {
    out.violations.push(Violation {
        stream: stream.to_string(),
        case,
        what: what.into(),
        detail,
    });
}
